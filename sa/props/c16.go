package props

import (
	"fmt"
	"go/constant"
	"go/token"
	"go/types"
	"sort"
	"strings"

	"golang.org/x/tools/go/ssa"

	"verif/sa/core"
)

func init() {
	register("C16", &Def{
		Title:     "Worker failures never corrupt the stream or truncate it silently",
		Run:       runC16,
		Technique: "static analysis: sentinel-preserving error wrapping (%w) on every call-graph path from the deterministic-failure producer to the classifiers, sibling agreement of the two tiers' error classifiers, retry/fatal classification table of the remote worker, message-switch rules of the scheduler, must-pass-through of error tests before any send",
		Explanation: "Fault sequences are NOT enumerated. Decided is the classification chain the property relies on: " +
			"(R1) on every call path between the producer of ErrWasmDeterministicExec and the tier-1/tier-2 error classifiers, each fmt.Errorf that forwards an in-flight error wraps it with %w, so errors.Is still recognises the deterministic failure; " +
			"(R2) toGRPCError (tier 2) and toConnectError (tier 1) map the same predicates to the same codes (deterministic wasm failure, store too big and invalid-argument errors → InvalidArgument; cancel; deadline), the remote worker treats InvalidArgument as final and every other receive/connect error as retryable, and the retry loop retries only retryable errors and turns anything else into a fatal error; " +
			"(R3) a failed job or merge ends the scheduler loop with that error, and that error is returned by ParallelProcessor.Run and runParallelProcess; " +
			"(R4) nothing is sent after a failure (send only after executeModules succeeded) and the linear phase only starts from stores that are exactly at the hand-off block (FinalStoreMap fails otherwise). Also (R4) in tier 2's ProcessRange every path after the request is counted in registers or performs the counting-out. Also (R2) a failure of the tier-2 transport ends a job only through a classification; (R3) the error-discipline contradiction rules are silent on all server-side packages.",
		NotCovered:  "Completion with equal outputs under injected transient faults; timing of retries; behaviour of the gRPC transport.",
		Assumptions: []string{"gRPC and connect codes share numeric values", "derr.RetryContext stops on a FatalError"},
	})
}

// fmtVerbs returns the verbs of a constant format string, in argument order.
func fmtVerbs(format string) []byte {
	var out []byte
	for i := 0; i < len(format); i++ {
		if format[i] != '%' {
			continue
		}
		i++
		for i < len(format) && strings.ContainsRune("+-# 0123456789.*[]", rune(format[i])) {
			i++
		}
		if i < len(format) {
			if format[i] == '%' {
				continue
			}
			out = append(out, format[i])
		}
	}
	return out
}

// errorfArgs returns the variadic operands of a fmt.Errorf call (unwrapped from MakeInterface).
func errorfArgs(c *ssa.Call) []ssa.Value {
	if len(c.Call.Args) < 2 {
		return nil
	}
	sl, ok := c.Call.Args[1].(*ssa.Slice)
	if !ok {
		return nil
	}
	al, ok := sl.X.(*ssa.Alloc)
	if !ok {
		return nil
	}
	args := map[int]ssa.Value{}
	max := -1
	for _, ref := range *al.Referrers() {
		ia, ok := ref.(*ssa.IndexAddr)
		if !ok {
			continue
		}
		k, ok := ia.Index.(*ssa.Const)
		if !ok {
			continue
		}
		i64, _ := constant.Int64Val(k.Value)
		for _, rr := range *ia.Referrers() {
			if st, ok := rr.(*ssa.Store); ok {
				v := st.Val
				for {
					if mi, ok := v.(*ssa.MakeInterface); ok {
						v = mi.X
						continue
					}
					if ci, ok := v.(*ssa.ChangeInterface); ok {
						v = ci.X
						continue
					}
					break
				}
				args[int(i64)] = v
				if int(i64) > max {
					max = int(i64)
				}
			}
		}
	}
	out := make([]ssa.Value, max+1)
	for i, v := range args {
		out[i] = v
	}
	return out
}

func runC16(p *core.Prog, r *core.Report) {
	// ------------------------------------------------------------------ R1
	r.Guard("C16.R1", "wrap-chain", "%w preserved", func() {
		cg := p.CallGraph(false)
		producer := p.Func(pkgExec, "BaseExecutor.wasmCall")
		// functions that can reach the producer
		canReach := map[*ssa.Function]bool{}
		var stack []*ssa.Function
		stack = append(stack, producer)
		for len(stack) > 0 {
			f := stack[len(stack)-1]
			stack = stack[:len(stack)-1]
			if canReach[f] {
				continue
			}
			canReach[f] = true
			if n := cg.Nodes[f]; n != nil {
				for _, e := range n.In {
					if core.IsRepo(e.Caller.Func) {
						stack = append(stack, e.Caller.Func)
					}
				}
			}
		}
		roots := []*ssa.Function{
			p.Func(pkgSvc, "Tier2Service.ProcessRange"), p.Func(pkgSvc, "Tier1Service.Blocks"),
			p.Func(pkgPipe, "Pipeline.ProcessBlock"), p.Func(pkgPipe, "Pipeline.ProcessFromExecOutput"),
		}
		fromRoots := core.Reachable(cg, roots...)
		var scope []*ssa.Function
		inScope := map[*ssa.Function]bool{}
		for f := range canReach {
			if fromRoots[f] && !p.IsTestFunc(f) {
				inScope[f] = true
			}
		}
		// the failure also travels as data (resultObj.err, stream errors): every function of the
		// pipeline / exec / service packages reachable from the roots forwards errors of a block's execution
		for f := range fromRoots {
			root := core.RootFn(f)
			if root.Pkg == nil || p.IsTestFunc(f) || f.Blocks == nil {
				continue
			}
			pp := strings.TrimPrefix(root.Pkg.Pkg.Path(), core.ModPath+"/")
			if pp == pkgPipe || pp == pkgExec || pp == pkgSvc {
				inScope[f] = true
			}
		}
		for f := range inScope {
			scope = append(scope, f)
		}
		sort.Slice(scope, func(i, j int) bool { return scope[i].String() < scope[j].String() })
		if len(scope) < 8 {
			core.Undecide("only %d functions on the path between the wasm call and the classifiers", len(scope))
		}
		sentinel := p.PkgVar(pkgExec, "ErrWasmDeterministicExec")
		n := 0
		for _, fn := range scope {
			cnt := 0
			core.Instrs(fn, func(in ssa.Instruction) {
				c, ok := in.(*ssa.Call)
				if !ok {
					return
				}
				if cl := core.CommonCallee(c.Common()); cl == nil || calleeKey(cl) != "fmt.Errorf" {
					return
				}
				format, ok := constString(c.Call.Args[0])
				if !ok {
					return
				}
				args := errorfArgs(c)
				verbs := fmtVerbs(format)
				var errIdx []int
				for i, a := range args {
					if a != nil && isErrorTyped(a.Type()) {
						errIdx = append(errIdx, i)
					}
				}
				if len(errIdx) == 0 {
					return
				}
				n++
				cnt++
				r.CallSites++
				r.Touch(core.FuncName(fn))
				// the in-flight error: error operands that are not package-level sentinels
				wrapsSentinel := false
				for _, i := range errIdx {
					if u, ok := args[i].(*ssa.UnOp); ok {
						if g, ok := u.X.(*ssa.Global); ok && g.Object() == sentinel && i < len(verbs) && verbs[i] == 'w' {
							wrapsSentinel = true
						}
					}
				}
				bad := ""
				for _, i := range errIdx {
					if u, ok := args[i].(*ssa.UnOp); ok {
						if _, isG := u.X.(*ssa.Global); isG {
							continue
						}
					}
					if i >= len(verbs) || verbs[i] != 'w' {
						if wrapsSentinel {
							continue // "%w: %s", Sentinel, cause — the sentinel itself is preserved
						}
						v := byte('?')
						if i < len(verbs) {
							v = verbs[i]
						}
						bad = fmt.Sprintf("error operand #%d is formatted with %%%c in %q", i+1, v, format)
					}
				}
				construct := fmt.Sprintf("%s/Errorf#%d", core.FuncName(fn), cnt)
				if why, ok := wrapAllow[construct]; ok && bad != "" {
					r.Add(&core.Obligation{Rule: "C16.R1", Construct: construct, Desc: "non-wrapping Errorf allowed: " + why, Status: core.OK, Sites: []string{p.Pos(c.Pos())}})
					return
				}
				r.Check(bad == "", "C16.R1", construct, "an error forwarded on the way from the wasm call to the error classifiers is wrapped with %w (errors.Is must still see ErrWasmDeterministicExec)", bad, p.Pos(c.Pos()))
			})
		}
		if n < 8 {
			core.Undecide("only %d error-forwarding Errorf calls found on the path", n)
		}
		// the producer itself wraps the sentinel with %w
		okProd := false
		core.Instrs(producer, func(in ssa.Instruction) {
			c, ok := in.(*ssa.Call)
			if !ok {
				return
			}
			if cl := core.CommonCallee(c.Common()); cl == nil || calleeKey(cl) != "fmt.Errorf" {
				return
			}
			format, _ := constString(c.Call.Args[0])
			verbs := fmtVerbs(format)
			for i, a := range errorfArgs(c) {
				if u, ok := a.(*ssa.UnOp); ok {
					if g, ok := u.X.(*ssa.Global); ok && g.Object() == sentinel && i < len(verbs) && verbs[i] == 'w' {
						okProd = true
					}
				}
			}
		})
		r.Check(okProd, "C16.R1", "wasmCall/sentinel", "a failed or panicking wasm execution is reported as ErrWasmDeterministicExec (wrapped with %w)", "sentinel not wrapped with %w in wasmCall", p.Pos(producer.Pos()))
		r.Notes = append(r.Notes, fmt.Sprintf("C16.R1: %d functions lie on call paths between the roots and wasmCall", len(scope)))
	})

	// ------------------------------------------------------------------ R2
	r.Guard("C16.R2", "classifiers", "tier agreement", func() {
		type cls map[string]string
		classify := func(fn *ssa.Function) cls {
			out := cls{}
			r.Touch(core.FuncName(fn))
			core.InstrsDeep(fn, func(in ssa.Instruction) {
				ifi, ok := in.(*ssa.If)
				if !ok {
					return
				}
				c, neg := core.StripNot(ifi.Cond)
				call, ok := c.(*ssa.Call)
				if !ok || neg {
					return
				}
				cl := core.CommonCallee(call.Common())
				if cl == nil {
					return
				}
				pred := ""
				switch calleeKey(cl) {
				case "errors.Is":
					if u, ok := call.Call.Args[1].(*ssa.UnOp); ok {
						if g, ok := u.X.(*ssa.Global); ok {
							pred = "Is(" + g.Name() + ")"
						}
					}
				case "errors.As":
					tgt := call.Call.Args[1]
					if mi, ok := tgt.(*ssa.MakeInterface); ok {
						tgt = mi.X
					}
					pred = "As(" + strings.TrimPrefix(typeName(derefPtrPtr(tgt.Type())), "*") + ")"
				default:
					if cl.Name() == "MatchString" {
						if u, ok := call.Call.Args[0].(*ssa.UnOp); ok {
							if g, ok := u.X.(*ssa.Global); ok {
								pred = "Match(" + g.Name() + ")"
							}
						}
					}
				}
				if pred == "" {
					return
				}
				// the code constants of the status.Error / connect.NewError calls reachable from the true edge before a return
				codes := map[string]bool{}
				tb := ifi.Block().Succs[0]
				seen := map[*ssa.BasicBlock]bool{}
				stk := []*ssa.BasicBlock{tb}
				for len(stk) > 0 {
					b := stk[len(stk)-1]
					stk = stk[:len(stk)-1]
					if seen[b] {
						continue
					}
					seen[b] = true
					for _, x := range b.Instrs {
						if cc, ok := x.(*ssa.Call); ok {
							if u := core.CommonCallee(cc.Common()); u != nil && (calleeKey(u) == "google.golang.org/grpc/status.Error" || calleeKey(u) == "connectrpc.com/connect.NewError") {
								if k, ok := cc.Call.Args[0].(*ssa.Const); ok {
									codes[k.Value.ExactString()] = true
								}
							}
						}
					}
					if _, isRet := b.Instrs[len(b.Instrs)-1].(*ssa.Return); !isRet {
						stk = append(stk, b.Succs...)
					}
				}
				var ks []string
				for k := range codes {
					ks = append(ks, k)
				}
				sort.Strings(ks)
				out[pred] = strings.Join(ks, "|")
			})
			return out
		}
		t2 := classify(p.Func(pkgSvc, "toGRPCError"))
		t1 := classify(p.Func(pkgSvc, "toConnectError"))
		want := cls{
			"Is(ErrWasmDeterministicExec)":   "3",
			"Match(StoreAboveMaxSizeRegexp)": "3",
			"As(ErrInvalidArg)":              "3",
			"Is(DeadlineExceeded)":           "4",
			"Is(Canceled)":                   "1|14",
		}
		var preds []string
		for k := range want {
			preds = append(preds, k)
		}
		sort.Strings(preds)
		for _, pr := range preds {
			r.Check(t2[pr] == want[pr], "C16.R2", "toGRPCError/"+pr, fmt.Sprintf("tier 2 maps %s to code %s", pr, want[pr]), "maps to "+t2[pr], p.Pos(p.Func(pkgSvc, "toGRPCError").Pos()))
			r.Check(t1[pr] == want[pr], "C16.R2", "toConnectError/"+pr, fmt.Sprintf("tier 1 maps %s to code %s", pr, want[pr]), "maps to "+t1[pr], p.Pos(p.Func(pkgSvc, "toConnectError").Pos()))
		}
		// the classifiers are applied to what the handlers return
		for _, h := range []struct{ fn, cls string }{{"Tier2Service.ProcessRange", "toGRPCError"}, {"Tier1Service.Blocks", "toConnectError"}} {
			hf := p.Func(pkgSvc, h.fn)
			n := 0
			for _, f := range core.WithClosures(hf) {
				n += len(core.FindInstrs(f, core.IsCallTo(p.FuncObj(pkgSvc, h.cls))))
			}
			r.Check(n > 0, "C16.R2", h.fn+"/classified", h.fn+" passes its error through "+h.cls, "classifier not called", p.Pos(hf.Pos()))
		}
	})
	r.Guard("C16.R2", "toConnectError/grpc-invalid-argument", "tier-2 invalid argument stays one", func() {
		// tier-1 keeps a gRPC InvalidArgument received from tier 2 as invalid argument
		fn := p.Func(pkgSvc, "toConnectError")
		fd, pk := p.FuncDecl(pkgSvc, "toConnectError")
		okPass := false
		for _, s := range core.SwitchesIn(pk, fd.Body) {
			for i, ls := range s.Labels {
				for _, l := range ls {
					if l == "InvalidArgument" {
						cl := s.Clauses[i]
						core.Instrs(fn, func(in ssa.Instruction) {
							if cc, ok := in.(*ssa.Call); ok && cl.Pos() <= cc.Pos() && cc.Pos() <= cl.End() {
								if u := core.CommonCallee(cc.Common()); u != nil && calleeKey(u) == "connectrpc.com/connect.NewError" {
									if k, ok := cc.Call.Args[0].(*ssa.Const); ok && k.Value.ExactString() == "3" {
										okPass = true
									}
								}
							}
						})
					}
				}
			}
		}
		r.Check(okPass, "C16.R2", "toConnectError/grpc-invalid-argument", "an InvalidArgument status coming back from a tier-2 job stays an invalid-argument error for the client", "gRPC InvalidArgument not mapped to connect InvalidArgument", p.Pos(fn.Pos()))
	})
	r.Guard("C16.R2", "RemoteWorker", "retry classification", func() {
		wf := p.Func(pkgWork, "RemoteWorker.work")
		r.Touch(core.FuncName(wf))
		nre := p.FuncObj(pkgWork, "NewRetryableErr")
		resT := p.Named(pkgWork, "Result")
		// InvalidArgument → final (Result.Error is the raw error)
		okFinal, okRetry := false, false
		// (in work or in the helper of its family that classifies the receive error)
		for _, member := range core.Family(wf, 1) {
			core.InstrsDeep(member, func(in ssa.Instruction) {
				ifi, ok := in.(*ssa.If)
				if !ok {
					return
				}
				onT, _, ok := core.CondRelation(ifi.Cond, func(v ssa.Value) bool {
					c, ok := v.(*ssa.Call)
					return ok && core.CommonCallee(c.Common()) != nil && core.CommonCallee(c.Common()).Name() == "Code"
				}, func(v ssa.Value) bool {
					k, ok := v.(*ssa.Const)
					return ok && k.Value != nil && k.Value.ExactString() == "3"
				})
				if !ok || onT != core.OrdEQ {
					return
				}
				classifyBlock := func(b *ssa.BasicBlock) string {
					for _, x := range b.Instrs {
						if al, ok := x.(*ssa.Alloc); ok {
							if pt, ok := al.Type().(*types.Pointer); ok {
								if n, ok := pt.Elem().(*types.Named); ok && n.Obj() == resT.Obj() {
									for _, v := range core.LiteralFields(al)["Error"] {
										if core.Trace(v, 0).HasCall(nre) {
											return "retryable"
										}
										return "final"
									}
								}
							}
						}
					}
					return "?"
				}
				if classifyBlock(ifi.Block().Succs[0]) == "final" {
					okFinal = true
				}
				if classifyBlock(ifi.Block().Succs[1]) == "retryable" {
					okRetry = true
				}
			})
		}
		// no silent success: once Recv failed with something else than io.EOF, every Result returned before the next Recv
		// carries an error that cannot be nil (the receive error itself, a constructed error, or ctx.Err() where it was tested)
		var recv *ssa.Call
		core.InstrsDeep(wf, func(in ssa.Instruction) { // (the receive loop may be a function of its own)
			if c, ok := in.(*ssa.Call); ok && c.Call.IsInvoke() && c.Call.Method.Name() == "Recv" {
				recv = c
			}
		})
		workFn := wf
		if recv != nil && recv.Parent() != wf {
			wf = recv.Parent() // the receive analysis is about the function that holds the receive loop
		}
		if recv == nil {
			core.Undecide("RemoteWorker.work: no Recv call")
		}
		var rerr ssa.Value
		for _, ref := range *recv.Referrers() {
			if ex, ok := ref.(*ssa.Extract); ok && ex.Index == 1 {
				rerr = ex
			}
		}
		// the classification may live in a helper that is handed the receive error and whose Result is returned as is
		cf, recvBlock := wf, recv.Block()
		if rerr != nil {
			for _, ref := range *rerr.Referrers() {
				c, ok := ref.(*ssa.Call)
				if !ok {
					continue
				}
				callee := core.StaticFn(c.Common())
				if callee == nil || callee.Pkg != wf.Pkg || callee.Blocks == nil {
					continue
				}
				returned := false
				core.Instrs(wf, func(x ssa.Instruction) {
					if ret, ok := x.(*ssa.Return); ok {
						for _, rv := range core.ReturnValues(ret) {
							if rv == ssa.Value(c) {
								returned = true
							}
						}
					}
				})
				if n, ok := c.Type().(*types.Pointer); !ok || !returned {
					continue
				} else if nn, ok := n.Elem().(*types.Named); !ok || nn.Obj() != resT.Obj() {
					continue
				}
				for i, a := range c.Call.Args {
					if a == rerr {
						cf, rerr, recvBlock = callee, callee.Params[i], nil
					}
				}
				break
			}
		}
		var nonEOF []core.Edge
		var ctxErrEdges []core.Edge
		core.InstrsDeep(cf, func(in ssa.Instruction) {
			ifi, ok := in.(*ssa.If)
			if !ok {
				return
			}
			c, neg := core.StripNot(ifi.Cond)
			bo, ok := c.(*ssa.BinOp)
			if !ok || (bo.Op != token.EQL && bo.Op != token.NEQ) {
				return
			}
			eqIdx := 0
			if (bo.Op == token.NEQ) != neg {
				eqIdx = 1
			}
			isEOF := func(v ssa.Value) bool {
				u, ok := v.(*ssa.UnOp)
				if !ok {
					return false
				}
				g, ok := u.X.(*ssa.Global)
				return ok && g.Name() == "EOF"
			}
			if (bo.X == rerr && isEOF(bo.Y)) || (bo.Y == rerr && isEOF(bo.X)) {
				nonEOF = append(nonEOF, core.Edge{From: ifi.Block(), Idx: 1 - eqIdx})
			}
			isCtxErr := func(v ssa.Value) bool {
				cc, ok := v.(*ssa.Call)
				return ok && cc.Call.IsInvoke() && cc.Call.Method.Name() == "Err"
			}
			isNil := func(v ssa.Value) bool { k, ok := v.(*ssa.Const); return ok && k.IsNil() }
			if (isCtxErr(bo.X) && isNil(bo.Y)) || (isCtxErr(bo.Y) && isNil(bo.X)) {
				ctxErrEdges = append(ctxErrEdges, core.Edge{From: ifi.Block(), Idx: 1 - eqIdx})
			}
		})
		okLoud := len(nonEOF) == 1 && rerr != nil
		badRes := ""
		if okLoud {
			start := nonEOF[0].From.Succs[nonEOF[0].Idx]
			region := map[*ssa.BasicBlock]bool{}
			stk := []*ssa.BasicBlock{start}
			for len(stk) > 0 {
				b := stk[len(stk)-1]
				stk = stk[:len(stk)-1]
				if region[b] || b == recvBlock {
					continue
				}
				region[b] = true
				stk = append(stk, b.Succs...)
			}
			nAl := 0
			for b := range region {
				for _, x := range b.Instrs {
					al, ok := x.(*ssa.Alloc)
					if !ok {
						continue
					}
					pt, ok := al.Type().(*types.Pointer)
					if !ok {
						continue
					}
					if n, ok := pt.Elem().(*types.Named); !ok || n.Obj() != resT.Obj() {
						continue
					}
					nAl++
					vals := core.LiteralFields(al)["Error"]
					if len(vals) == 0 {
						badRes = "a Result without Error at " + p.Pos(al.Pos())
						continue
					}
					for _, v := range vals {
						for {
							if mi, ok := v.(*ssa.MakeInterface); ok {
								v = mi.X
								continue
							}
							if ci, ok := v.(*ssa.ChangeInterface); ok {
								v = ci.X
								continue
							}
							break
						}
						switch x := v.(type) {
						case *ssa.Extract, *ssa.Parameter:
							if v != rerr {
								badRes = "Result.Error from another value at " + p.Pos(al.Pos())
							}
						case *ssa.Call:
							if x.Call.IsInvoke() && x.Call.Method.Name() == "Err" {
								q := core.PathQuery{Fn: cf, CutEdge: func(e core.Edge) bool { return containsEdge(ctxErrEdges, e) }}
								if _, reach := q.CanReach(start.Instrs[0], func(y ssa.Instruction) bool { return y == ssa.Instruction(al) }); reach || len(ctxErrEdges) == 0 {
									badRes = "Result.Error = ctx.Err() where ctx.Err() was not tested non-nil, at " + p.Pos(al.Pos())
								}
							} else if cl := core.CommonCallee(x.Common()); cl == nil || !(cl == nre || cl.Name() == "Errorf" || cl.Name() == "New" || cl.Name() == "NewFatalError") {
								badRes = "Result.Error from an unclassified call at " + p.Pos(al.Pos())
							}
						default:
							badRes = "Result.Error is not provably non-nil at " + p.Pos(al.Pos())
						}
					}
				}
			}
			okLoud = nAl >= 3 && badRes == ""
		}
		r.Check(okLoud, "C16.R2", "RemoteWorker.work/failed-recv-never-succeeds", "after a receive error other than io.EOF every Result returned carries a non-nil error (the error itself, a constructed error, or ctx.Err() only where it was tested non-nil): a dropped stream is never reported as a finished job", badRes, p.Pos(wf.Pos()))
		r.Check(okFinal, "C16.R2", "RemoteWorker.work/invalid-argument-final", "an InvalidArgument status from tier 2 (deterministic failure) is returned as is, not retried", "InvalidArgument branch wraps the error as retryable or is missing", p.Pos(wf.Pos()))
		r.Check(okRetry, "C16.R2", "RemoteWorker.work/others-retryable", "every other receive error is wrapped in a RetryableErr", "fallback branch does not build a RetryableErr", p.Pos(wf.Pos()))
		// the retry loop recognises retryable errors by their exact dynamic type (type switch): a RetryableErr must therefore
		// be stored unwrapped in Result.Error — wrapping it (fmt.Errorf("…%w", retryable)) silently turns it into a fatal error
		exactType := false
		for _, cl := range core.Family(p.Func(pkgWork, "RemoteWorker.Work"), 1) {
			core.Instrs(cl, func(in ssa.Instruction) {
				if t, ok := in.(*ssa.TypeAssert); ok && typeName(t.AssertedType) == "*RetryableErr" {
					exactType = true
				}
			})
		}
		usesAs := false
		for _, cl := range core.Family(p.Func(pkgWork, "RemoteWorker.Work"), 1) {
			core.Instrs(cl, func(in ssa.Instruction) {
				if c := core.CalleeOf(in); c != nil && calleeKey(c) == "errors.As" {
					usesAs = true
				}
			})
		}
		nRes, wrapped := 0, ""
		core.Instrs(wf, func(in ssa.Instruction) {
			al, ok := in.(*ssa.Alloc)
			if !ok {
				return
			}
			pt, ok := al.Type().(*types.Pointer)
			if !ok {
				return
			}
			if n, ok := pt.Elem().(*types.Named); !ok || n.Obj() != resT.Obj() {
				return
			}
			for _, v := range core.LiteralFields(al)["Error"] {
				nRes++
				direct := false
				if mi, ok := v.(*ssa.MakeInterface); ok {
					if c, ok := mi.X.(*ssa.Call); ok && core.CommonCallee(c.Common()) == nre {
						direct = true
					}
				}
				if !direct && core.Trace(v, 0).HasCall(nre) {
					wrapped = p.Pos(al.Pos())
				}
			}
		})
		r.Check(nRes >= 5 && (wrapped == "" || (usesAs && !exactType)), "C16.R2", "RemoteWorker.work/retryable-unwrapped", "every retryable error is handed to the retry loop in the form the loop recognises (a bare *RetryableErr, since the loop uses a type switch)", "a RetryableErr is wrapped before being stored in Result.Error at "+wrapped+": the type switch in Work treats it as fatal", p.Pos(wf.Pos()))
		// connect error → retryable
		okConn := false
		wf = workFn
		for _, c := range core.FindInstrs(wf, func(in ssa.Instruction) bool {
			cc, ok := in.(ssa.CallInstruction)
			return ok && cc.Common().IsInvoke() && cc.Common().Method.Name() == "ProcessRange"
		}) {
			for _, e := range errNonNilEdges(wf, c) {
				q := core.PathQuery{Fn: wf}
				if _, reach := q.CanReach(e.From.Succs[e.Idx].Instrs[0], core.IsCallTo(nre)); reach {
					okConn = true
				}
			}
		}
		r.Check(okConn, "C16.R2", "RemoteWorker.work/connect-retryable", "failing to open the job's stream is a retryable error", "NewRetryableErr not reachable from the ProcessRange error branch", p.Pos(wf.Pos()))
		// Work's retry closure: *RetryableErr → return err (retry); any other non-nil → derr.NewFatalError
		w := p.Func(pkgWork, "RemoteWorker.Work")
		okLoop := false
		for _, cl := range core.Family(w, 1) { // Work, its retry closure, and a method the classification was moved into
			var ta *ssa.TypeAssert
			core.Instrs(cl, func(in ssa.Instruction) {
				if t, ok := in.(*ssa.TypeAssert); ok && t.CommaOk && typeName(t.AssertedType) == "*RetryableErr" {
					ta = t
				}
			})
			if ta == nil {
				continue
			}
			fatal := core.FindInstrs(cl, func(in ssa.Instruction) bool {
				c := core.CalleeOf(in)
				return c != nil && c.Name() == "NewFatalError"
			})
			// on the not-retryable side a non-nil error must become fatal
			for _, ref := range *ta.Referrers() {
				ex, ok := ref.(*ssa.Extract)
				if !ok || ex.Index != 1 {
					continue
				}
				for _, rr := range *ex.Referrers() {
					if ifi, ok := rr.(*ssa.If); ok {
						fb := ifi.Block().Succs[1]
						reachFatal := false
						for _, f := range fatal {
							if reachFromBlock(cl, fb, f) {
								reachFatal = true
							}
						}
						// and the retryable side returns the error itself without going through NewFatalError unconditionally
						tb := ifi.Block().Succs[0]
						plainReturn := false
						seen := map[*ssa.BasicBlock]bool{}
						stk := []*ssa.BasicBlock{tb}
						for len(stk) > 0 {
							b := stk[len(stk)-1]
							stk = stk[:len(stk)-1]
							if seen[b] {
								continue
							}
							seen[b] = true
							if ret, ok := b.Instrs[len(b.Instrs)-1].(*ssa.Return); ok {
								if len(ret.Results) == 1 && !core.Trace(ret.Results[0], 0).HasCall(core.CalleeOf(fatal[0])) {
									plainReturn = true
								}
							}
							stk = append(stk, b.Succs...)
						}
						if reachFatal && plainReturn {
							okLoop = true
						}
					}
				}
			}
		}
		r.Check(okLoop, "C16.R2", "RemoteWorker.Work/retry-loop", "the retry loop retries a RetryableErr (returns it to derr.RetryContext) and turns any other error into a fatal one", "type switch on *RetryableErr with fatal fallback not found", p.Pos(w.Pos()))
		// the early give-up is a budget of TIMEOUTS only: the counter tested before the retryable error is turned into a
		// fatal one is advanced only on the deadline-exceeded branch (any other transient failure — worker unavailable,
		// stream dropped, overloaded — keeps being retried up to the retry limit of derr.RetryContext)
		for _, cl := range core.WithClosures(w) {
			var ta *ssa.TypeAssert
			core.Instrs(cl, func(in ssa.Instruction) {
				if t, ok := in.(*ssa.TypeAssert); ok && t.CommaOk && typeName(t.AssertedType) == "*RetryableErr" {
					ta = t
				}
			})
			if ta == nil {
				continue
			}
			cellOf := func(v ssa.Value) ssa.Value {
				u, ok := core.SkipConv(v).(*ssa.UnOp)
				if !ok || u.Op != token.MUL {
					return nil
				}
				switch u.X.(type) {
				case *ssa.FreeVar, *ssa.Alloc:
					return u.X
				}
				return nil
			}
			// deadline-exceeded edges
			var deadline []core.Edge
			core.InstrsDeep(cl, func(in ssa.Instruction) {
				ifi, ok := in.(*ssa.If)
				if !ok {
					return
				}
				c, neg := core.StripNot(ifi.Cond)
				call, ok := c.(*ssa.Call)
				if !ok {
					return
				}
				if cc := core.CommonCallee(call.Common()); cc == nil || calleeKey(cc) != "strings.Contains" {
					return
				}
				k, ok := call.Call.Args[1].(*ssa.Const)
				if !ok || !strings.Contains(constant.StringVal(k.Value), "DeadlineExceeded") {
					return
				}
				idx := 0
				if neg {
					idx = 1
				}
				deadline = append(deadline, core.Edge{From: ifi.Block(), Idx: idx})
			})
			fatal := core.FindInstrs(cl, func(in ssa.Instruction) bool {
				c := core.CalleeOf(in)
				return c != nil && c.Name() == "NewFatalError"
			})
			nGive, bad := 0, []string{}
			core.InstrsDeep(cl, func(in ssa.Instruction) {
				ifi, ok := in.(*ssa.If)
				if !ok {
					return
				}
				bo, ok := ifi.Cond.(*ssa.BinOp)
				if !ok {
					return
				}
				switch bo.Op {
				case token.GEQ, token.GTR, token.LSS, token.LEQ:
				default:
					return
				}
				cx, cy := cellOf(bo.X), cellOf(bo.Y)
				if cx == nil && cy == nil {
					return
				}
				// does one side of this test lead to a fatal error that wraps the retryable one?
				leads := false
				for i := 0; i < 2; i++ {
					for _, f := range fatal {
						if reachFromBlock(cl, ifi.Block().Succs[i], f) && !reachFromBlock(cl, ifi.Block().Succs[1-i], f) {
							leads = true
						}
					}
				}
				if !leads {
					return
				}
				nGive++
				// every cell of the comparison that is ever incremented in the closure must be incremented on the deadline branch only
				for _, cell := range []ssa.Value{cx, cy} {
					if cell == nil {
						continue
					}
					for _, st := range core.StoresTo(cell) {
						if st.Parent() != cl {
							continue
						}
						add, ok := st.Val.(*ssa.BinOp)
						if !ok || add.Op != token.ADD || cellOf(add.X) != cell {
							continue
						}
						q := core.PathQuery{Fn: cl, CutEdge: func(e core.Edge) bool { return containsEdge(deadline, e) }}
						if _, reach := q.CanReach(nil, func(x ssa.Instruction) bool { return x == ssa.Instruction(st) }); reach || len(deadline) == 0 {
							bad = append(bad, "the counter "+cell.Name()+" compared before giving up is advanced outside the deadline-exceeded branch at "+p.Pos(st.Pos()))
						}
					}
				}
			})
			r.Check(nGive > 0 && len(bad) == 0, "C16.R2", "RemoteWorker.Work/give-up-budget", "a retryable failure is turned into a fatal one only when the budget of execution TIMEOUTS is used up: the counter tested is advanced on the deadline-exceeded branch only, so other transient faults keep being retried", fmt.Sprintf("%d give-up tests; %s", nGive, strings.Join(bad, "; ")), p.Pos(cl.Pos()))
		}
		// the final error becomes MsgJobFailed with that error
		okFail := false
		for _, cl := range core.WithClosures(w) {
			for _, al := range allocsOrValuesOf(cl, p.Named(pkgWork, "MsgJobFailed")) {
				if len(al["Error"]) > 0 {
					okFail = true
				}
			}
		}
		r.Check(okFail, "C16.R2", "RemoteWorker.Work/job-failed", "a job that ends in error reports MsgJobFailed carrying the error", "MsgJobFailed{Error: …} not built", p.Pos(w.Pos()))
	})

	// ------------------------------------------------------------------ R3
	r.Guard("C16.R3", "Scheduler.Update", "failures end the request", func() { checkSchedulerUpdate(p, r, "C16.R3") })
	r.Guard("C16.R3", "run-error", "scheduler error returned", func() {
		pp := p.Func("orchestrator", "ParallelProcessor.Run")
		r.Touch(core.FuncName(pp))
		ok := false
		for _, c := range core.FindInstrs(pp, func(in ssa.Instruction) bool {
			cl := core.CalleeOf(in)
			return cl != nil && cl.Name() == "Run" && cl.Pkg() != nil && strings.HasSuffix(cl.Pkg().Path(), "orchestrator/loop")
		}) {
			for _, e := range errNonNilEdges(pp, c) {
				b := e.From.Succs[e.Idx]
				if ret, isRet := b.Instrs[len(b.Instrs)-1].(*ssa.Return); isRet && !core.ReturnsNilError(ret) {
					ok = true
				}
			}
		}
		r.Check(ok, "C16.R3", "ParallelProcessor.Run", "the error that ended the scheduler loop is returned by ParallelProcessor.Run", "scheduler error not returned", p.Pos(pp.Pos()))
		rp := p.Func(pkgPipe, "Pipeline.runParallelProcess")
		ok2 := false
		for _, c := range core.FindInstrs(rp, core.IsCallTo(p.FuncObj("orchestrator", "ParallelProcessor.Run"))) {
			if core.ErrorTested(c) {
				ok2 = true
			}
		}
		r.Check(ok2, "C16.R3", "runParallelProcess", "runParallelProcess tests the error of the parallel processor", "error ignored", p.Pos(rp.Pos()))
	})

	// ------------------------------------------------------------------ R4
	r.Guard("C16.R4", "FinalStoreMap", "no data from an incomplete store", func() {
		fn := p.Func(pkgStage, "Stages.FinalStoreMap")
		r.Touch(core.FuncName(fn))
		gs := p.FuncObj(pkgStage, "StoreModuleState.getStore")
		calls := core.FindInstrs(fn, core.IsCallTo(gs))
		ok := len(calls) == 1
		if ok {
			c := calls[0].(*ssa.Call)
			ok = core.OriginParam(c.Call.Args[2]) != nil && core.ErrorTested(c)
			for _, e := range errNonNilEdges(fn, c) {
				b := e.From.Succs[e.Idx]
				if ret, isRet := b.Instrs[len(b.Instrs)-1].(*ssa.Return); !isRet || core.ReturnsNilError(ret) {
					ok = false
				}
			}
		}
		r.Check(ok, "C16.R4", "FinalStoreMap", "the stores handed to the linear phase are obtained at exactly the hand-off block, and a store that cannot be brought there is an error", "getStore(exclusiveEndBlock) with error return not found", p.Pos(fn.Pos()))
		// getStore returns the cached store only if it is at the requested block
		g := p.Func(pkgStage, "StoreModuleState.getStore")
		okG := false
		lb := p.Field(pkgStage, "StoreModuleState", "lastBlockInStore")
		core.InstrsDeep(g, func(in ssa.Instruction) {
			ifi, isIf := in.(*ssa.If)
			if !isIf {
				return
			}
			if onT, _, okc := core.CondRelation(ifi.Cond, func(v ssa.Value) bool { f, _ := core.LoadedField(v); return f == lb },
				func(v ssa.Value) bool { return core.OriginParam(v) != nil }); okc && onT == core.OrdEQ {
				okG = true
			}
		})
		r.Check(okG, "C16.R4", "getStore/cached-only-if-synced", "the in-memory store is reused only when it is synced to exactly the requested block; otherwise the snapshot for that block is loaded", "comparison lastBlockInStore == requested block not found", p.Pos(g.Pos()))
	})
	r.Guard("C16.R4", "send-after-success", "nothing after an error", func() {
		// shared with C04.R3: in handleStepNew the send is reachable only when executeModules returned nil
		fn := p.Func(pkgPipe, "Pipeline.handleStepNew")
		exec := p.FuncObj(pkgPipe, "Pipeline.executeModules")
		ret := p.FuncObj(pkgPipe, "returnModuleDataOutputs")
		calls := core.FindInstrs(fn, core.IsCallTo(exec))
		if len(calls) != 1 {
			core.Undecide("handleStepNew: expected one executeModules call")
		}
		nilEdges := errNilEdges(fn, calls[0])
		q := core.PathQuery{Fn: fn, CutEdge: func(e core.Edge) bool { return containsEdge(nilEdges, e) }}
		_, reach := q.CanReach(calls[0], core.IsCallTo(ret))
		r.Check(len(nilEdges) > 0 && !reach, "C16.R4", "handleStepNew/send-after-success", "a block's outputs are sent only if all its modules executed without error (a deterministic failure at block N delivers nothing for N)", "send reachable on the error branch", p.Pos(calls[0].Pos()))
		// executeModules: a module error stops the block (returned before applying further results)
		em := p.Func(pkgPipe, "Pipeline.executeModules")
		okErr := true
		n := 0
		for _, member := range core.Family(em, 2) {
			for _, c := range core.FindInstrs(member, core.IsCallTo(p.FuncObj(pkgPipe, "Pipeline.applyExecutionResult"))) {
				n++
				if !core.ErrorTested(c) {
					okErr = false
				}
			}
		}
		r.Check(okErr && n >= 2, "C16.R4", "executeModules/result-errors", "the error of every module result is tested and aborts the block", "applyExecutionResult error ignored", p.Pos(em.Pos()))
		// applyExecutionResult returns the run error first
		ap := p.Func(pkgPipe, "Pipeline.applyExecutionResult")
		resT := p.Named(pkgPipe, "resultObj")
		errF := core.FieldOf(resT, "err")
		okFirst := false
		core.InstrsDeep(ap, func(in ssa.Instruction) {
			ifi, isIf := in.(*ssa.If)
			if !isIf {
				return
			}
			bo, isBo := ifi.Cond.(*ssa.BinOp)
			if !isBo || bo.Op != token.NEQ {
				return
			}
			if f, _ := core.LoadedField(bo.X); f == errF {
				tb := ifi.Block().Succs[0]
				if rt, isRet := tb.Instrs[len(tb.Instrs)-1].(*ssa.Return); isRet && !core.ReturnsNilError(rt) {
					// nothing is recorded (Set / addReversibleOutput) before this test
					q := core.PathQuery{Fn: ap, CutInstr: func(x ssa.Instruction) bool { return x == ssa.Instruction(ifi) }}
					_, early := q.CanReach(nil, func(x ssa.Instruction) bool {
						cc, ok := x.(ssa.CallInstruction)
						return ok && cc.Common().IsInvoke() && (cc.Common().Method.Name() == "Set" || cc.Common().Method.Name() == "SetFileOutput")
					})
					okFirst = !early
				}
			}
		})
		r.Check(okFirst, "C16.R4", "applyExecutionResult/error-first", "a module's run error is returned before any of its output is recorded for the block", "outputs recorded before the error test", p.Pos(ap.Pos()))
	})
	r.Guard("C16.R1", "wasmCall", "where the deterministic marker is attached", func() { checkWasmCallClassification(p, r, "C16.R1") })
	r.Guard("C16.R4", "OnStreamTerminated", "graceful end only", func() { checkOnStreamTerminated(p, r, "C16.R4") })
	r.GuardExact("C16.R4", "request-slot", "counting-in paired with counting-out", func() { checkRequestSlotPaired(p, r, "C16.R4") })
	r.GuardExact("C16.R2", "transport-errors", "transport errors are classified", func() { checkTransportErrorsClassified(p, r, "C16.R2") })
	r.GuardExact("C16.R3", "error-discipline", "errors are tested where they are produced", func() {
		checkErrorDiscipline(p, r, "C16.R3", []string{"pipeline", "orchestrator", "service", "storage", "manifest", "block", "sqe", "wasm", "reqctx"}, 300)
	})
	r.Guard("C16.R4", "stream-end", "failed step never classified EOF", func() { checkStreamEndClassification(p, r, "C16.R4") })
	r.MinInstances("C16.R1", 8)
	r.MinInstances("C16.R2", 16)
	r.MinInstances("C16.R3", 8)
	r.MinInstances("C16.R4", 5)
}

func derefPtrPtr(t types.Type) types.Type {
	for i := 0; i < 2; i++ {
		if p, ok := t.(*types.Pointer); ok {
			t = p.Elem()
		}
	}
	return t
}

// wrapAllow: Errorf sites in scope that format an error without %w, each confirmed by reading.
var wrapAllow = map[string]string{
	"service.ValidateTier1Request/Errorf#1": "request validation runs before any module executes: the error cannot carry a wasm failure; the handler maps it to invalid argument itself",
	"service.ValidateTier2Request/Errorf#1": "request validation runs before any module executes: the error cannot carry a wasm failure; the handler maps it to invalid argument itself",
}
