package props

import (
	"fmt"
	"go/constant"
	"go/token"
	"go/types"
	"sort"
	"strings"

	"golang.org/x/tools/go/ssa"

	"verif/sa/core"
)

// Error-discipline rules added after mutation round 9 (slips on error and cleanup paths).  They are contradiction
// rules in the sense of Engler et al.: each reports a construct whose two halves cannot both be meant.

// nilTestEdges lists, for the value v, the edges of fn on which v is known nil (wantNil) or non-nil.
func nilTestEdges(fn *ssa.Function, v ssa.Value, wantNil bool) []core.Edge {
	var out []core.Edge
	for _, b := range fn.Blocks {
		ifi, ok := b.Instrs[len(b.Instrs)-1].(*ssa.If)
		if !ok {
			continue
		}
		c, neg := core.StripNot(ifi.Cond)
		bo, ok := c.(*ssa.BinOp)
		if !ok || (bo.Op != token.NEQ && bo.Op != token.EQL) {
			continue
		}
		k, isK := bo.Y.(*ssa.Const)
		if !isK || !k.IsNil() || bo.X != v {
			continue
		}
		nonNilIdx := 0
		if (bo.Op == token.EQL) != neg {
			nonNilIdx = 1
		}
		if wantNil {
			out = append(out, core.Edge{From: b, Idx: 1 - nonNilIdx})
		} else {
			out = append(out, core.Edge{From: b, Idx: nonNilIdx})
		}
	}
	return out
}

// errorValues lists the error-typed values produced by calls of fn (a call returning error, or the error component
// of a tuple).
func errorValues(fn *ssa.Function) []ssa.Value {
	var out []ssa.Value
	core.Instrs(fn, func(in ssa.Instruction) {
		switch x := in.(type) {
		case *ssa.Call:
			if cl := core.CommonCallee(x.Common()); cl != nil && cl.Name() == "Err" && cl.Pkg() != nil && cl.Pkg().Path() == "context" {
				return // ctx.Err() reports a state, it is not the failure of an operation
			}
			if isErrorTyped(x.Type()) {
				out = append(out, x)
			}
		case *ssa.Extract:
			if _, isCall := x.Tuple.(*ssa.Call); isCall && isErrorTyped(x.Type()) {
				out = append(out, x)
			}
		}
	})
	return out
}

type errFinding struct{ kind, where, detail string }

// errorDisciplineFindings runs the four contradiction rules on fn:
//
//	stale-test     an `e != nil` test sits where the same value e is already known to be nil (the test can never
//	               fire: another error — the one produced in between — was meant);
//	sentinel-only  an error produced by a call is compared with a sentinel (io.EOF, …) but never with nil, never
//	               returned and never handed on: every other failure of the call vanishes;
//	wrap-nil       fmt.Errorf wraps (%w) an error on a path that is only reachable with that error known nil;
//	value-before-ok the value of a `v, ok := m[k]` lookup decides a branch on a path where ok has not been found true
//	               although ok is tested elsewhere (a missing key is then the zero value of the map's element type).
func errorDisciplineFindings(p *core.Prog, fn *ssa.Function) []errFinding {
	var out []errFinding
	if fn.Blocks == nil {
		return nil
	}
	for _, e := range errorValues(fn) {
		nilEdges := nilTestEdges(fn, e, true)
		nonNil := nilTestEdges(fn, e, false)
		isNonNil := func(x core.Edge) bool { return containsEdge(nonNil, x) }
		// stale-test: a nil test of e whose block is reachable from e's definition only through nil edges of e
		if len(nilEdges) > 0 {
			for _, ne := range nilEdges {
				// every test of e other than the first one reached: is its block reachable with the non-nil edges cut
				// and ONLY through a nil edge?
				_ = ne
			}
			tests := map[*ssa.BasicBlock]bool{}
			for _, x := range nilEdges {
				tests[x.From] = true
			}
			for tb := range tests {
				// reachable from def(e) without taking any nil edge of another test? then it is a first test: fine.
				q := core.PathQuery{Fn: fn, Inter: -1, CutEdge: func(x core.Edge) bool {
					return x.From != tb && (containsEdge(nilEdges, x) || isNonNil(x))
				}}
				last := tb.Instrs[len(tb.Instrs)-1]
				if _, reach := q.CanReach(e.(ssa.Instruction), func(in ssa.Instruction) bool { return in == last }); reach {
					continue
				}
				// only reachable through other tests of e: through a nil edge (non-nil edges cut)?
				q2 := core.PathQuery{Fn: fn, Inter: -1, CutEdge: func(x core.Edge) bool { return x.From != tb && isNonNil(x) }}
				if _, reach := q2.CanReach(e.(ssa.Instruction), func(in ssa.Instruction) bool { return in == last }); reach {
					out = append(out, errFinding{"stale-test", p.Pos(core.InstrPos(last)), "the error tested here is already known to be nil on every path that reaches the test"})
				}
			}
		}
		// sentinel-only
		refs := *e.Referrers()
		cmpOther, nilCmp, other := 0, 0, 0
		for _, ref := range refs {
			switch x := ref.(type) {
			case *ssa.DebugRef:
			case *ssa.BinOp:
				if k, ok := x.Y.(*ssa.Const); ok && k.IsNil() {
					nilCmp++
				} else if k, ok := x.X.(*ssa.Const); ok && k.IsNil() {
					nilCmp++
				} else {
					cmpOther++
				}
			default:
				other++
			}
		}
		if cmpOther > 0 && nilCmp == 0 && other == 0 {
			out = append(out, errFinding{"sentinel-only", p.Pos(core.InstrPos(e.(ssa.Instruction))), "the error of this call is compared with a sentinel only: any other failure is neither tested, returned nor handed on"})
		}
		// wrap-nil
		if len(nonNil) > 0 {
			for _, c := range errorfCallsWrapping(e) {
				q := core.PathQuery{Fn: fn, Inter: -1, CutEdge: isNonNil}
				if _, reach := q.CanReach(e.(ssa.Instruction), func(in ssa.Instruction) bool { return in == ssa.Instruction(c) }); reach {
					out = append(out, errFinding{"wrap-nil", p.Pos(c.Pos()), "fmt.Errorf wraps an error on a path that does not pass the `!= nil` edge of its test: the branch is entered with a nil error too"})
				}
			}
		}
	}
	// value-before-ok
	core.Instrs(fn, func(in ssa.Instruction) {
		lk, ok := in.(*ssa.Lookup)
		if !ok || !lk.CommaOk {
			return
		}
		if _, isMap := lk.X.Type().Underlying().(*types.Map); !isMap {
			return
		}
		var val, okv *ssa.Extract
		for _, ref := range *lk.Referrers() {
			if ex, isEx := ref.(*ssa.Extract); isEx {
				if ex.Index == 0 {
					val = ex
				} else {
					okv = ex
				}
			}
		}
		if val == nil || okv == nil {
			return
		}
		// edges on which ok is true
		var okTrue, okFalse []core.Edge
		for _, ref := range *okv.Referrers() {
			var ifi *ssa.If
			neg := false
			switch x := ref.(type) {
			case *ssa.If:
				ifi = x
			case *ssa.UnOp:
				if x.Op == token.NOT {
					for _, rr := range *x.Referrers() {
						if y, isIf := rr.(*ssa.If); isIf {
							ifi, neg = y, true
						}
					}
				}
			}
			if ifi == nil {
				continue
			}
			t, f := 0, 1
			if neg {
				t, f = 1, 0
			}
			okTrue = append(okTrue, core.Edge{From: ifi.Block(), Idx: t})
			okFalse = append(okFalse, core.Edge{From: ifi.Block(), Idx: f})
		}
		if len(okTrue) == 0 {
			return // ok is not tested by a branch here (returned, stored, combined): nothing to contradict
		}
		for _, ref := range *val.Referrers() {
			bo, isCmp := ref.(*ssa.BinOp)
			if !isCmp || (bo.Op != token.EQL && bo.Op != token.NEQ) {
				continue
			}
			// the comparison decides a branch
			decides := false
			for _, rr := range *bo.Referrers() {
				if _, isIf := rr.(*ssa.If); isIf {
					decides = true
				}
			}
			if !decides {
				continue
			}
			q := core.PathQuery{Fn: fn, Inter: -1, CutEdge: func(x core.Edge) bool { return containsEdge(okTrue, x) }}
			if _, reach := q.CanReach(lk, func(x ssa.Instruction) bool { return x == ssa.Instruction(bo) }); reach {
				out = append(out, errFinding{"value-before-ok", p.Pos(bo.Pos()), "the looked-up value decides a branch before (or without) the `found` flag of the same lookup having been seen true"})
			}
		}
	})
	return out
}

// checkErrorDiscipline applies errorDisciplineFindings to every non-test function of the packages under the given
// prefixes (relative to the module), minus the allow table (construct → reason).
func checkErrorDiscipline(p *core.Prog, r *core.Report, rule string, prefixes []string, minFns int) {
	allow := map[string]string{}
	n := 0
	byKind := map[string][]string{}
	for _, fn := range p.RepoFunctions() {
		root := core.RootFn(fn)
		if root.Pkg == nil || p.IsTestFunc(root) {
			continue
		}
		pp := strings.TrimPrefix(root.Pkg.Pkg.Path(), core.ModPath+"/")
		in := false
		for _, pre := range prefixes {
			if pp == pre || strings.HasPrefix(pp, pre+"/") {
				in = true
			}
		}
		if !in {
			continue
		}
		n++
		for _, f := range errorDisciplineFindings(p, fn) {
			key := f.kind + "@" + core.FuncName(fn)
			if _, ok := allow[key]; ok {
				continue
			}
			byKind[f.kind] = append(byKind[f.kind], core.FuncName(fn)+" at "+f.where+": "+f.detail)
		}
	}
	if n < minFns {
		core.Undecide("error discipline: only %d functions in %v", n, prefixes)
	}
	desc := map[string]string{
		"stale-test":      "no error test sits where the tested value is already known to be nil (the error produced in between is the one that must be tested)",
		"sentinel-only":   "no error of a call is compared with a sentinel only: it is also tested against nil, returned or handed on",
		"wrap-nil":        "no fmt.Errorf wraps (%w) an error on a path reachable with that error nil",
		"value-before-ok": "the value of a `v, ok := m[k]` lookup does not decide a branch before ok has been seen true (a missing key is the zero value of the element type)",
	}
	for _, k := range []string{"stale-test", "sentinel-only", "wrap-nil", "value-before-ok"} {
		sort.Strings(byKind[k])
		r.Check(len(byKind[k]) == 0, rule, "error-discipline/"+k, desc[k]+fmt.Sprintf(" (%d functions of %s)", n, strings.Join(prefixes, ", ")), strings.Join(byKind[k], "; "), "")
	}
}

var _ = constant.MakeBool

// errorfCallsWrapping lists the fmt.Errorf calls that receive e among their variadic operands.
func errorfCallsWrapping(e ssa.Value) []*ssa.Call {
	var out []*ssa.Call
	carriers := []ssa.Value{e}
	for _, ref := range *e.Referrers() {
		switch x := ref.(type) {
		case *ssa.ChangeInterface:
			carriers = append(carriers, x)
		case *ssa.MakeInterface:
			carriers = append(carriers, x)
		}
	}
	for _, cv := range carriers {
		for _, ref := range *cv.Referrers() {
			st, ok := ref.(*ssa.Store)
			if !ok || st.Val != cv {
				continue
			}
			ia, ok := st.Addr.(*ssa.IndexAddr)
			if !ok {
				continue
			}
			al, ok := ia.X.(*ssa.Alloc)
			if !ok {
				continue
			}
			for _, ar := range *al.Referrers() {
				sl, ok := ar.(*ssa.Slice)
				if !ok {
					continue
				}
				for _, sr := range *sl.Referrers() {
					if c, ok := sr.(*ssa.Call); ok {
						if cl := core.CommonCallee(c.Common()); cl != nil && calleeKey(cl) == "fmt.Errorf" {
							out = append(out, c)
						}
					}
				}
			}
		}
	}
	return out
}

// checkTransportErrorsClassified (C16.R2): in RemoteWorker.work a failure of the tier-2 transport (ProcessRange, Header,
// Recv) ends the job only through a classification: from the edge on which the error of such a call is non-nil, every
// path to a return passes NewRetryableErr, the next transport call (the failure is only logged and the stream tells),
// the `ctx.Err() != nil` edge (the caller gave up), the InvalidArgument edge (deterministic module failure) or the
// io.EOF edge (the classification may sit in a helper of the package: the paths are followed into it).  A transport
// error returned any other way is taken for fatal by the retry loop: one transient fault
// between the call and the first header ends the whole request.
func checkTransportErrorsClassified(p *core.Prog, r *core.Report, rule string) {
	fn := p.Func(pkgWork, "RemoteWorker.work")
	r.Touch(core.FuncName(fn))
	retry := p.FuncObj(pkgWork, "NewRetryableErr")
	isRetry := core.IsCallTo(retry)
	transport := map[string]bool{"ProcessRange": true, "Header": true, "Recv": true}
	isTransport := func(in ssa.Instruction) bool {
		c, ok := in.(*ssa.Call)
		return ok && c.Call.IsInvoke() && transport[c.Call.Method.Name()]
	}
	// classification edges
	var cut []core.Edge
	var famBlocks []*ssa.BasicBlock
	for _, m := range core.Family(fn, 1) {
		famBlocks = append(famBlocks, m.Blocks...)
	}
	for _, b := range famBlocks {
		ifi, ok := b.Instrs[len(b.Instrs)-1].(*ssa.If)
		if !ok {
			continue
		}
		c, neg := core.StripNot(ifi.Cond)
		bo, ok := c.(*ssa.BinOp)
		if !ok || (bo.Op != token.EQL && bo.Op != token.NEQ) {
			continue
		}
		trueIdx := 0
		if neg {
			trueIdx = 1
		}
		eqIdx, neIdx := trueIdx, 1-trueIdx
		if bo.Op == token.NEQ {
			eqIdx, neIdx = 1-trueIdx, trueIdx
		}
		for _, pair := range [][2]ssa.Value{{bo.X, bo.Y}, {bo.Y, bo.X}} {
			x, y := core.ResolveCell(core.SkipConv(pair[0])), core.SkipConv(pair[1])
			// ctx.Err() != nil
			if call, isCall := x.(*ssa.Call); isCall {
				if cl := core.CommonCallee(call.Common()); cl != nil && cl.Name() == "Err" && cl.Pkg() != nil && cl.Pkg().Path() == "context" {
					if k, isK := y.(*ssa.Const); isK && k.IsNil() {
						cut = append(cut, core.Edge{From: b, Idx: neIdx})
					}
				}
				// grpcErr.Code() == codes.InvalidArgument
				if cl := core.CommonCallee(call.Common()); cl != nil && cl.Name() == "Code" {
					if k, isK := y.(*ssa.Const); isK && k.Value != nil && k.Value.Kind() == constant.Int {
						if v, exact := constant.Int64Val(k.Value); exact && v == 3 {
							cut = append(cut, core.Edge{From: b, Idx: eqIdx})
						}
					}
				}
			}
			// err == io.EOF
			if ld, isLd := y.(*ssa.UnOp); isLd && ld.Op == token.MUL {
				if g, isG := ld.X.(*ssa.Global); isG && g.Name() == "EOF" && g.Pkg != nil && g.Pkg.Pkg.Path() == "io" {
					cut = append(cut, core.Edge{From: b, Idx: eqIdx})
				}
			}
		}
	}
	n := 0
	for _, b := range famBlocks {
		m := b.Parent()
		for _, in := range b.Instrs {
			if !isTransport(in) {
				continue
			}
			c := in
			nonNil := errNonNilEdges(m, c)
			if len(nonNil) == 0 {
				core.Undecide("RemoteWorker.work: the error of %s is not tested against nil", c.(*ssa.Call).Call.Method.Name())
			}
			n++
			for _, e := range nonNil {
				e := e
				q := core.PathQuery{Fn: m,
					CutInstr: func(x ssa.Instruction) bool { return isRetry(x) || isTransport(x) },
					CutEdge: func(x core.Edge) bool {
						return containsEdge(cut, x) || (x.From == e.From && x.Idx != e.Idx)
					}}
				hit, reached := q.CanReach(e.From.Instrs[len(e.From.Instrs)-1], core.IsNormalExit)
				pos := p.Pos(core.InstrPos(c))
				if hit != nil {
					pos = p.Pos(core.InstrPos(hit))
				}
				r.Check(!reached, rule, "RemoteWorker.work/"+c.(*ssa.Call).Call.Method.Name()+"/failure-classified", "a failure of the tier-2 transport ends the job only as a RetryableErr, behind the caller's cancellation, behind the InvalidArgument test or at io.EOF (or is left to the next transport call)", "a return is reachable from the failure of "+c.(*ssa.Call).Call.Method.Name()+" without any classification: the retry loop takes the error for fatal", pos)
			}
		}
	}
	if n < 3 {
		core.Undecide("RemoteWorker.work: only %d transport calls found", n)
	}
}

// checkFailureEndsFunction: in the named function every error-returning call is followed, on the paths where its
// error is non-nil, by a return of a certainly non-nil error (no return whose error may be nil is reachable with the
// nil edges of the error's test removed): the failure of one step is not overwritten by the success of a later one.
func checkFailureEndsFunction(p *core.Prog, r *core.Report, rule, rel, name string, min int) {
	fn := p.Func(rel, name)
	r.Touch(core.FuncName(fn))
	n := 0
	for _, e := range errorValues(fn) {
		nilEdges := nilTestEdges(fn, e, true)
		n++
		q := core.PathQuery{Fn: fn, Inter: -1, CutEdge: func(x core.Edge) bool { return containsEdge(nilEdges, x) }}
		hit, reach := q.CanReach(e.(ssa.Instruction), func(in ssa.Instruction) bool {
			ret, ok := in.(*ssa.Return)
			return ok && core.ErrorResultState(ret) <= 0
		})
		// `return step()`: the verdict of the step is the function's own
		if len(nilEdges) == 0 {
			direct := false
			for _, ref := range *e.Referrers() {
				if _, isRet := ref.(*ssa.Return); isRet {
					direct = true
				}
			}
			if direct {
				reach = false
			}
		}
		pos := p.Pos(core.InstrPos(e.(ssa.Instruction)))
		if hit != nil {
			pos = p.Pos(core.InstrPos(hit))
		}
		r.Check(!reach, rule, shortRecv(name)+"/failure-ends-function", "a failing step always makes the function return a non-nil error (it is neither overwritten by a later step's success nor only logged)", "a return whose error may be nil is reachable although the step failed", pos)
	}
	if n < min {
		core.Undecide("%s: %d error-returning steps found", name, n)
	}
}

// checkKindTagsDistinct (C06.R1): the three module kinds are written into the hash under three different tags: each
// kind type of the switch on Module.Kind leads to its own constant (a map turned into a block index, everything else
// equal, must change the identifier).
func checkKindTagsDistinct(p *core.Prog, r *core.Report, rule string) {
	fn := p.Func(pkgMani, "ModuleHashes.hashModule")
	r.Touch(core.FuncName(fn))
	tags := map[string]map[string]bool{}
	for _, m := range core.Family(fn, 1) {
		core.Instrs(m, func(in ssa.Instruction) {
			ta, ok := in.(*ssa.TypeAssert)
			if !ok || !ta.CommaOk {
				return
			}
			tn := ta.AssertedType.String()
			i := strings.LastIndex(tn, ".Module_Kind")
			if i < 0 {
				return
			}
			kind := tn[i+1:]
			// the success edge of the assertion
			for _, ref := range *ta.Referrers() {
				ex, isEx := ref.(*ssa.Extract)
				if !isEx || ex.Index != 1 {
					continue
				}
				for _, rr := range *ex.Referrers() {
					ifi, isIf := rr.(*ssa.If)
					if !isIf {
						continue
					}
					succ := ifi.Block().Succs[0]
					// constants written (or returned) in the blocks reached from the success edge before the cases join
					seen := map[*ssa.BasicBlock]bool{}
					var walk func(b *ssa.BasicBlock, depth int)
					walk = func(b *ssa.BasicBlock, depth int) {
						if seen[b] || depth > 3 {
							return
						}
						seen[b] = true
						found := false
						for _, bi := range b.Instrs {
							var vals []ssa.Value
							switch x := bi.(type) {
							case ssa.CallInstruction:
								vals = x.Common().Args
							case *ssa.Return:
								vals = core.ReturnValues(x)
							}
							for _, a := range vals {
								if k, isK := a.(*ssa.Const); isK && k.Value != nil && k.Value.Kind() == constant.String {
									if tags[kind] == nil {
										tags[kind] = map[string]bool{}
									}
									tags[kind][constant.StringVal(k.Value)] = true
									found = true
								}
							}
						}
						if found {
							return
						}
						for _, s := range b.Succs {
							if len(s.Preds) == 1 || depth == 0 {
								walk(s, depth+1)
							}
						}
					}
					walk(succ, 0)
				}
			}
		})
	}
	want := []string{"Module_KindMap_", "Module_KindStore_", "Module_KindBlockIndex_"}
	var bad []string
	owner := map[string]string{}
	for _, k := range want {
		if len(tags[k]) == 0 {
			core.Undecide("hashModule: no constant tag found behind the %s case", k)
		}
		for t := range tags[k] {
			if o, dup := owner[t]; dup && o != k {
				bad = append(bad, fmt.Sprintf("%s and %s are both written as %q", o, k, t))
			}
			owner[t] = k
		}
	}
	sort.Strings(bad)
	r.Check(len(bad) == 0, rule, "hashModule/kind-tags-distinct", "map, store and block-index modules are written into the hash under three different kind tags", strings.Join(bad, "; "), p.Pos(fn.Pos()))
}

// checkNoNilnessOfValues (C09.R1): the store's operation appliers never ask whether a value is nil: a cached
// operation log goes through protobuf, where an empty value comes back as nil, so a branch on nil-ness makes the replay
// of a block differ from its direct execution (len(v) == 0 is the wire-stable question).
func checkNoNilnessOfValues(p *core.Prog, r *core.Report, rule string) {
	n := 0
	var bad []string
	for _, fn := range p.RepoFunctions() {
		if fn.Pkg == nil || fn.Pkg.Pkg.Path() != core.ModPath+"/"+pkgStore || p.IsTestFunc(fn) {
			continue
		}
		n++
		core.Instrs(fn, func(in ssa.Instruction) {
			bo, ok := in.(*ssa.BinOp)
			if !ok || (bo.Op != token.EQL && bo.Op != token.NEQ) {
				return
			}
			var other ssa.Value
			if k, isK := bo.Y.(*ssa.Const); isK && k.IsNil() {
				other = bo.X
			} else if k, isK := bo.X.(*ssa.Const); isK && k.IsNil() {
				other = bo.Y
			}
			if other == nil || !isByteSlice(other.Type()) {
				return
			}
			if prm, isP := core.SkipConv(other).(*ssa.Parameter); isP {
				bad = append(bad, fmt.Sprintf("%s compares its parameter %s with nil at %s", core.FuncName(fn), prm.Name(), p.Pos(bo.Pos())))
			}
		})
	}
	if n < 100 {
		core.Undecide("package storage/store: only %d functions", n)
	}
	sort.Strings(bad)
	r.Check(len(bad) == 0, rule, "storage/store/no-nilness-of-values", "no function of the store package branches on a []byte parameter being nil (nil and empty are the same value once an operation or a delta went through protobuf)", strings.Join(bad, "; "), "")
}

// checkWithInitialBlock (C13.R1): re-basing a segmenter is building a new one from the same interval and end and the
// new initial block, whatever that block is (0 is a block number like any other): every return of WithInitialBlock is
// NewSegmenter(s.interval, newInitialBlock, s.exclusiveEndBlock).
func checkWithInitialBlock(p *core.Prog, r *core.Report, rule string) {
	fn := p.Func(pkgBlock, "Segmenter.WithInitialBlock")
	r.Touch(core.FuncName(fn))
	ctor := p.FuncObj(pkgBlock, "NewSegmenter")
	n := 0
	core.Instrs(fn, func(in ssa.Instruction) {
		ret, ok := in.(*ssa.Return)
		if !ok {
			return
		}
		n++
		vals := core.ReturnValues(ret)
		good := false
		detail := "the value returned is not a NewSegmenter call"
		if len(vals) == 1 {
			if c, isCall := vals[0].(*ssa.Call); isCall && core.CommonCallee(c.Common()) == ctor && len(c.Call.Args) == 3 {
				f0, _ := core.LoadedField(c.Call.Args[0])
				f2, _ := core.LoadedField(c.Call.Args[2])
				prm, isP := core.SkipConv(c.Call.Args[1]).(*ssa.Parameter)
				good = f0 != nil && f0.Name() == "interval" && f2 != nil && f2.Name() == "exclusiveEndBlock" && isP && len(fn.Params) == 2 && prm == fn.Params[1]
				detail = "NewSegmenter is not called with (s.interval, newInitialBlock, s.exclusiveEndBlock)"
			}
		}
		r.Check(good, rule, "Segmenter.WithInitialBlock/rebuilds", "every return of WithInitialBlock is NewSegmenter(s.interval, newInitialBlock, s.exclusiveEndBlock): no initial block is special", detail, p.Pos(core.InstrPos(ret)))
	})
	if n == 0 {
		core.Undecide("WithInitialBlock: no return")
	}
}
