package props

import (
	"fmt"

	"golang.org/x/tools/go/ssa"

	"verif/sa/core"
)

// checkWalkerProtocol (C04.R1, C05.R5): the scheduler's handling of the cached-output walker.
//   - a download is started only when none is in flight, and the in-flight flag is raised in Update itself, before the
//     command is handed out (two queued download requests must not both start: the segment would be sent twice and the
//     next one skipped);
//   - a file that is not there yet is polled again; a downloaded file advances the walker by one segment, clears the flag
//     and asks for the next one; a finished job wakes the walker up.
func checkWalkerProtocol(p *core.Prog, r *core.Report, rule string) {
	fn := p.Func("orchestrator/scheduler", "Scheduler.Update")
	r.Touch(core.FuncName(fn))
	w := func(name string) func(ssa.Instruction) bool {
		obj := p.FuncObj(pkgOExec, "Walker."+name)
		return core.IsCallTo(obj)
	}
	cmdDL := core.IsCallTo(p.FuncObj(pkgOExec, "CmdDownloadSegment"))
	cur := core.FindInstrs(fn, w("CmdDownloadCurrentSegment"))
	if len(cur) == 0 {
		core.Undecide("Scheduler.Update: no CmdDownloadCurrentSegment call")
	}
	// guard: only when not working
	var idle []core.Edge
	for _, c := range core.FindInstrs(fn, w("IsWorking")) {
		for _, ref := range *c.(ssa.Value).Referrers() {
			if ifi, ok := ref.(*ssa.If); ok {
				idle = append(idle, core.Edge{From: ifi.Block(), Idx: 1})
			}
		}
	}
	for i, c := range cur {
		c := c
		q := core.PathQuery{Fn: fn, CutEdge: func(e core.Edge) bool { return containsEdge(idle, e) }}
		_, reach := q.CanReach(nil, func(x ssa.Instruction) bool { return x == c })
		r.Check(len(idle) > 0 && !reach, rule, fmt.Sprintf("Update/download#%d/only-when-idle", i+1), "a segment download is started only when no download is in flight (IsWorking() == false)", "CmdDownloadCurrentSegment reachable without the idle test", p.Pos(c.Pos()))
		_, marked := core.MustPassBefore(fn, w("MarkWorking"), func(x ssa.Instruction) bool { return x == c })
		r.Check(marked, rule, fmt.Sprintf("Update/download#%d/flag-first", i+1), "the in-flight flag is raised synchronously in Update before the download command is handed out", "a path reaches CmdDownloadCurrentSegment without MarkWorking", p.Pos(c.Pos()))
	}
	// the flag is written only by Update's synchronous code: MarkWorking / MarkNotWorking are not called from command closures
	var bad []string
	for _, f := range p.RepoFunctions() {
		if f.Parent() == nil {
			continue
		}
		if len(core.FindInstrsIn(f, w("MarkWorking")))+len(core.FindInstrsIn(f, w("MarkNotWorking"))) > 0 {
			bad = append(bad, core.FuncName(f))
		}
	}
	r.Check(len(bad) == 0, rule, "Walker.working/synchronous", "the walker's in-flight flag is only changed synchronously (never inside a command closure, which runs after further messages may have been handled)", fmt.Sprintf("changed in closures: %v", bad), "")
	// wake-ups
	for _, c := range core.FindInstrs(fn, w("MarkNotWorking")) {
		_, again := core.MustReachAfter(fn, c, cmdDL, nil)
		r.Check(again, rule, "Update/"+clauseOf(p, c)+"/poll-again", "whenever the in-flight flag is cleared (file not there yet, or file downloaded) a new download request is issued: the walker keeps polling until it is completed", "a path clears the flag without asking for the next download", p.Pos(c.Pos()))
	}
	for _, c := range core.FindInstrs(fn, w("NextSegment")) {
		_, cleared := core.MustReachAfter(fn, c, w("MarkNotWorking"), nil)
		n := len(core.FindInstrs(fn, w("NextSegment")))
		r.Check(cleared && n == 1, rule, "Update/MsgFileDownloaded/advance-once", "a downloaded file advances the walker by exactly one segment and clears the in-flight flag", fmt.Sprintf("NextSegment calls: %d; flag cleared afterwards: %v", n, cleared), p.Pos(c.Pos()))
	}
	mjs := p.FuncObj(pkgStage, "Stages.MarkJobSuccess")
	for _, c := range core.FindInstrs(fn, core.IsCallTo(mjs)) {
		// on the path where a walker exists
		q := core.PathQuery{Fn: fn}
		_, reach := q.CanReach(c, cmdDL)
		r.Check(reach, rule, "Update/MsgJobSucceeded/wake-walker", "a finished job wakes the cached-output walker up (its file may now exist)", "no CmdDownloadSegment after MarkJobSuccess", p.Pos(c.Pos()))
	}
}

// clauseOf names the message case a call of Update sits in (by the case labels at its position).
func clauseOf(p *core.Prog, in ssa.Instruction) string {
	ls := p.CaseLabels(in.Pos())
	if len(ls) == 0 {
		return "?"
	}
	return ls[len(ls)-1]
}
