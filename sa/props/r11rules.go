package props

import (
	"fmt"
	"go/constant"
	"go/token"
	"go/types"
	"sort"
	"strings"

	"golang.org/x/tools/go/ssa"

	"verif/sa/core"
)

// Rules added after mutation round 11 (missed cases, disagreement between siblings).

// checkMergeBranchDomain (C02.R7): every (policy, value type) branch of baseStore.Merge computes in the numeric
// domain the per-block write path of that value type computes in.  The host interface (wasm/call.go) says which
// value types share one sequential implementation: a call validateWithTwoValueTypes(name, policy, "bigdecimal",
// "bigfloat", key) makes the second an alias of the first, so the deprecated `bigfloat` is computed with exact decimals
// block by block and has to be squashed with exact decimals too (with big.Float arithmetic a squashed sum is rounded to
// the mantissa while the sequential sum is exact).  The rule reads the domain of each arithmetic/parsing call inside a
// value-type clause of Merge (closures included, same-package helpers followed) and compares it with the clause's value
// type after alias resolution.
func checkMergeBranchDomain(p *core.Prog, r *core.Report, rule string) {
	merge := p.Func(pkgStore, "baseStore.Merge")
	r.Touch(core.FuncName(merge))

	// value-type constants of the manifest package: name -> string value
	vtValue := map[string]string{}
	mscope := p.Pkg("manifest").Types.Scope()
	for _, nm := range mscope.Names() {
		c, ok := mscope.Lookup(nm).(*types.Const)
		if !ok || !strings.HasPrefix(nm, "OutputValueType") || c.Val().Kind() != constant.String {
			continue
		}
		vtValue[nm] = constant.StringVal(c.Val())
	}
	if len(vtValue) < 5 {
		core.Undecide("manifest: only %d OutputValueType* constants found", len(vtValue))
	}

	// aliases from the host interface
	alias := map[string]string{}
	two := p.FuncObj(pkgWasm, "Call.validateWithTwoValueTypes")
	nAlias := 0
	for _, fn := range p.RepoFunctions() {
		if fn.Pkg == nil || fn.Pkg.Pkg.Path() != core.ModPath+"/"+pkgWasm {
			continue
		}
		core.Instrs(fn, func(in ssa.Instruction) {
			ci, ok := in.(ssa.CallInstruction)
			if !ok || core.CommonCallee(ci.Common()) != two {
				return
			}
			var strs []string
			for _, a := range ci.Common().Args {
				if k, ok := a.(*ssa.Const); ok && k.Value != nil && k.Value.Kind() == constant.String {
					strs = append(strs, constant.StringVal(k.Value))
				}
			}
			// name, first value type, second value type
			if len(strs) != 3 {
				core.Undecide("%s: validateWithTwoValueTypes call without three constant strings", p.Pos(in.Pos()))
			}
			if prev, ok := alias[strs[2]]; ok && prev != strs[1] {
				core.Undecide("value type %s is an alias of both %s and %s", strs[2], prev, strs[1])
			}
			alias[strs[2]] = strs[1]
			nAlias++
		})
	}
	if nAlias < 3 {
		core.Undecide("wasm: only %d validateWithTwoValueTypes call sites found", nAlias)
	}
	domains := map[string]bool{"int64": true, "float64": true, "bigint": true, "bigdecimal": true}

	classify := func(ci ssa.CallInstruction) string {
		cl := core.CommonCallee(ci.Common())
		if cl == nil || cl.Pkg() == nil {
			return "none"
		}
		if cl.Pkg() == merge.Pkg.Pkg {
			sf := core.StaticFn(ci.Common())
			if sf == nil || sf == merge {
				return "none"
			}
			return numericDomain(sf, 2)
		}
		path, nm := cl.Pkg().Path(), cl.Name()
		recv := ""
		if sig, ok := cl.Type().(*types.Signature); ok && sig.Recv() != nil {
			recv = sig.Recv().Type().String()
		}
		switch {
		case path == "strconv" && (nm == "ParseInt" || nm == "FormatInt" || nm == "Atoi"):
			return "int64"
		case path == "strconv" && (nm == "ParseFloat" || nm == "FormatFloat"):
			return "float64"
		case path == "math/big" && (strings.Contains(recv, "big.Int") || nm == "NewInt"):
			return "bigint"
		case strings.Contains(path, "shopspring/decimal"):
			return "bigdecimal"
		case path == "math/big" && (strings.Contains(recv, "big.Float") || nm == "NewFloat"):
			return "bigfloat"
		}
		return "none"
	}

	type key struct{ clause, dom string }
	seen := map[key]string{}
	fns := append([]*ssa.Function{merge}, merge.AnonFuncs...)
	for _, fn := range fns {
		core.Instrs(fn, func(in ssa.Instruction) {
			ci, ok := in.(ssa.CallInstruction)
			if !ok || !in.Pos().IsValid() {
				return
			}
			dom := classify(ci)
			if dom == "none" {
				return
			}
			labels := p.CaseLabels(in.Pos())
			for _, l := range labels {
				if !strings.HasPrefix(l, "OutputValueType") {
					continue
				}
				k := key{strings.Join(labels, "/"), dom}
				if _, dup := seen[k]; !dup {
					seen[k] = p.Pos(in.Pos())
				}
				break
			}
		})
	}
	var keys []key
	for k := range seen {
		keys = append(keys, k)
	}
	sort.Slice(keys, func(i, j int) bool {
		if keys[i].clause != keys[j].clause {
			return keys[i].clause < keys[j].clause
		}
		return keys[i].dom < keys[j].dom
	})
	n := 0
	for _, k := range keys {
		// the value types of the clause, resolved through the host interface's aliases
		want := map[string]bool{}
		for _, part := range strings.Split(k.clause, "/") {
			for _, l := range strings.Split(part, ",") {
				v, ok := vtValue[l]
				if !ok {
					continue
				}
				if a, ok := alias[v]; ok {
					v = a
				}
				if domains[v] {
					want[v] = true
				}
			}
		}
		if len(want) == 0 {
			// string / bytes / proto clauses: no arithmetic expected at all
			r.Fail(rule, "Merge/"+k.clause+"/domain", "a non-numeric value-type clause of Merge performs no arithmetic", "computes in "+k.dom, seen[k])
			continue
		}
		n++
		okDom := true
		for _, d := range strings.Split(k.dom, "+") {
			if !want[d] {
				okDom = false
			}
		}
		var ws []string
		for w := range want {
			ws = append(ws, w)
		}
		sort.Strings(ws)
		r.Check(okDom, rule, "Merge/"+k.clause+"/domain", "the clause computes in the numeric domain of its value type as the host interface resolves it ("+strings.Join(ws, ",")+"): the per-block write path of that type and the squash agree on the arithmetic", "computes in "+k.dom, seen[k])
	}
	if n < 12 {
		core.Undecide("Merge: only %d numeric (policy, value type) clauses recognised", n)
	}
}

// checkBitmapEvaluatorVisitsAll (C15.R1): the set-valued evaluator combines every child of an OR node.  The per-block
// evaluator may stop early (a true disjunct, a false conjunct); on bitmaps only an AND may (an empty intersection stays
// empty) — an OR whose running union is empty can still gain blocks from a later child.  Every early way out of a loop
// of roaringQuerier.apply is therefore either a panic or taken under a successful test that the node is an
// *AndExpression (a dominating type test); anything else lets a precomputed index answer differently from the keys.
func checkBitmapEvaluatorVisitsAll(p *core.Prog, r *core.Report, rule string) {
	fn := p.Func(pkgSqe, "roaringQuerier.apply")
	r.Touch(core.FuncName(fn))
	isAndTest := func(v ssa.Value) bool {
		seen := map[ssa.Value]bool{}
		var walk func(v ssa.Value) bool
		walk = func(v ssa.Value) bool {
			if v == nil || seen[v] {
				return false
			}
			seen[v] = true
			switch x := v.(type) {
			case *ssa.Extract:
				return walk(x.Tuple)
			case *ssa.TypeAssert:
				return x.CommaOk && strings.HasSuffix(x.AssertedType.String(), "sqe.AndExpression")
			}
			return false
		}
		return walk(v)
	}
	underAnd := func(b *ssa.BasicBlock) bool {
		for d := b; d != nil; d = d.Idom() {
			if len(d.Preds) != 1 {
				continue
			}
			pr := d.Preds[0]
			ifi, ok := pr.Instrs[len(pr.Instrs)-1].(*ssa.If)
			if ok && pr.Succs[0] == d && isAndTest(ifi.Cond) {
				return true
			}
		}
		return false
	}
	n := 0
	var bad []string
	for _, f := range core.Family(fn, 1) {
		for _, l := range core.Loops(f) {
			n++
			for _, e := range l.EarlyExits {
				if l.ExitIsPanic(e) || underAnd(e.From) {
					continue
				}
				bad = append(bad, p.Pos(e.From.Instrs[len(e.From.Instrs)-1].Pos()))
			}
		}
	}
	if n == 0 {
		core.Undecide("roaringQuerier.apply: no loop over the children found")
	}
	r.Check(len(bad) == 0, rule, "apply@roaringQuerier/no-early-exit", "the loop combining the children's bitmaps leaves early only by a panic or under a test that the node is an AND: every child of an OR is united into the result", fmt.Sprintf("early exits: %v", bad), p.Pos(fn.Pos()))
}

// checkMergedNoZeroSentinel (C13.R6): block 0 is a block like any other.  Ranges.Merged and MergedBuckets never branch
// on a block number (a uint64 start or end) being zero: a range that starts at 0 is merged and emitted like every
// other one (with `start != 0` standing for "a range is pending", the ranges [0,5),[5,9) lose their first five blocks).
func checkMergedNoZeroSentinel(p *core.Prog, r *core.Report, rule string) {
	n := 0
	for _, name := range []string{"Ranges.Merged", "Ranges.MergedBuckets"} {
		fn := p.Func(pkgBlock, name)
		r.Touch(core.FuncName(fn))
		var bad []string
		for _, f := range core.Family(fn, 1) {
			core.Instrs(f, func(in ssa.Instruction) {
				ifi, ok := in.(*ssa.If)
				if !ok {
					return
				}
				bo, ok := ifi.Cond.(*ssa.BinOp)
				if !ok {
					return
				}
				isZero := func(v ssa.Value) bool {
					k, ok := core.SkipConv(v).(*ssa.Const)
					if !ok || k.Value == nil || k.Value.Kind() != constant.Int {
						return false
					}
					x, exact := constant.Int64Val(k.Value)
					return exact && x == 0
				}
				isBlockNum := func(v ssa.Value) bool {
					bt, ok := v.Type().Underlying().(*types.Basic)
					return ok && bt.Kind() == types.Uint64 && !isZero(v)
				}
				if (isZero(bo.X) && isBlockNum(bo.Y)) || (isZero(bo.Y) && isBlockNum(bo.X)) {
					bad = append(bad, p.Pos(bo.Pos()))
				}
			})
		}
		n++
		r.Check(len(bad) == 0, rule, name+"/no-zero-sentinel", "no branch of the merge tests a block number against zero: a range starting at block 0 is treated like any other", fmt.Sprintf("zero tests: %v", bad), p.Pos(fn.Pos()))
	}
	_ = n
}

// checkFullsBeforePartials (C07.R2): FetchStoresState tallies a module's full snapshots before its partials.  The
// rule "a partial found for a unit already completed by a full snapshot is ignored" (full-over-partial) reads the
// unit's state; it can only see Completed if the full snapshots were counted first.  With the partials first, a
// segment that has both files for every store of a stage (a squash interrupted between writing the full snapshot and
// deleting the partial leaves exactly that) is marked PartialPresent and then Completed — a transition the unit state
// machine refuses.  Within one iteration of the innermost loop that holds both markings, no path leads from
// MarkSegmentPartialPresent to markSegmentCompleted.
func checkFullsBeforePartials(p *core.Prog, r *core.Report, rule string) {
	fn := p.Func(pkgStage, "Stages.FetchStoresState")
	r.Touch(core.FuncName(fn))
	markC := p.FuncObj(pkgStage, "Stages.markSegmentCompleted")
	markP := p.FuncObj(pkgStage, "Stages.MarkSegmentPartialPresent")
	site := func(obj *types.Func) []ssa.Instruction {
		var out []ssa.Instruction
		for _, in := range core.FindInstrs(fn, core.IsCallTo(obj)) {
			if s := core.SiteIn(fn, in); s != nil && s.Parent() == fn {
				out = append(out, s)
			}
		}
		return out
	}
	pps, cs := site(markP), site(markC)
	if len(pps) == 0 || len(cs) == 0 {
		core.Undecide("FetchStoresState: marking calls not found in the function (%d partial-present, %d completed)", len(pps), len(cs))
	}
	isC := func(in ssa.Instruction) bool {
		for _, c := range cs {
			if c == in {
				return true
			}
		}
		return false
	}
	loops := core.Loops(fn)
	okAll := true
	detail := ""
	for _, pp := range pps {
		// innermost loop holding this marking and a completed-marking
		var common *core.Loop
		for _, l := range loops {
			if !l.Body[pp.Block()] {
				continue
			}
			has := false
			for _, c := range cs {
				if l.Body[c.Block()] {
					has = true
				}
			}
			if has && (common == nil || len(l.Body) < len(common.Body)) {
				common = l
			}
		}
		q := core.PathQuery{Fn: fn, Inter: -1, CutEdge: func(e core.Edge) bool {
			return common != nil && common.Body[e.From] && e.From.Succs[e.Idx] == common.Header
		}}
		if hit, reach := q.CanReach(pp, isC); reach {
			okAll = false
			detail = "markSegmentCompleted at " + p.Pos(hit.Pos()) + " is reachable after MarkSegmentPartialPresent at " + p.Pos(pp.Pos()) + " in the same iteration"
		}
	}
	r.Check(okAll, rule, "FetchStoresState/fulls-before-partials", "within one iteration over a stage's store modules the full snapshots are tallied before the partials: no marking of Completed follows a marking of PartialPresent (the full-over-partial test needs the completed state to be there)", detail, p.Pos(fn.Pos()))
}

// checkEngineHashesOverPackageGraph (C06.R1): the engine computes module hashes over the graph of the whole package,
// like every other hasher (info, tools, the manifest reader).  hashModule concatenates the hashes of a module's
// ancestors in the order the graph hands them out, and that order follows the module list the graph was built from; a
// graph built from the request's used modules (topologically ordered, output-dependent) gives the same module a
// different identity from one request to the next and from the identity the tooling prints.  The graph given to
// ModuleHashes.HashModule in pipeline/exec comes from a NewModuleGraph call on the `Modules` field of the request's
// pbsubstreams.Modules, never from a field of the exec.Graph under construction.
func checkEngineHashesOverPackageGraph(p *core.Prog, r *core.Report, rule string) {
	root := p.Func(pkgExec, "Graph.computeGraph")
	r.Touch(core.FuncName(root))
	hm := p.FuncObj(pkgMani, "ModuleHashes.HashModule")
	newGraph := p.FuncObj(pkgMani, "NewModuleGraph")
	graphT := p.Named(pkgExec, "Graph")
	ownFields := map[*types.Var]bool{}
	if st, ok := graphT.Underlying().(*types.Struct); ok {
		for i := 0; i < st.NumFields(); i++ {
			ownFields[st.Field(i)] = true
		}
	}
	calls := core.FindInstrs(root, core.IsCallTo(hm))
	if len(calls) == 0 {
		core.Undecide("computeGraph: no call of ModuleHashes.HashModule in its family")
	}
	for i, c := range calls {
		args := c.(ssa.CallInstruction).Common().Args
		g := args[len(args)-1]
		s := core.TraceFrom(root, g, 3)
		fromNew := s.Calls[newGraph]
		var own []string
		pkgModules := false
		var ngCalls []ssa.Instruction
		for _, f := range core.Family(root, 2) {
			core.Instrs(f, func(in ssa.Instruction) {
				if core.IsCallTo(newGraph)(in) {
					ngCalls = append(ngCalls, in)
				}
			})
		}
		for _, ng := range ngCalls {
			as := core.TraceFrom(root, ng.(ssa.CallInstruction).Common().Args[0], 3)
			for f := range as.Fields {
				if ownFields[f] {
					own = append(own, f.Name())
				}
				if f.Name() == "Modules" && f.Pkg() != nil && strings.HasSuffix(f.Pkg().Path(), "pb/sf/substreams/v1") {
					pkgModules = true
				}
			}
		}
		sort.Strings(own)
		r.Check(fromNew && pkgModules && len(own) == 0 && len(ngCalls) > 0, rule, fmt.Sprintf("computeGraph/HashModule#%d/package-graph", i+1), "the graph the engine hashes over is built by NewModuleGraph from the request's whole module list (Modules.Modules), not from a field of the execution graph being computed", fmt.Sprintf("graph from NewModuleGraph=%v, built from Modules.Modules=%v, exec.Graph fields feeding a NewModuleGraph call: %v", fromNew, pkgModules, own), p.Pos(c.Pos()))
	}
}

// checkCursorAlwaysResolved (C12.R4): a start cursor that is not on a final block is resolved against the chain.
// After the cursor has been parsed, the only success return of resolveStartBlockNum that does not pass the call of the
// cursor resolver is the one behind cursor.IsOnFinalBlock(): any other shortcut hands out a start block for a block
// that may sit on a fork (no undo signal, no restart from the junction).
func checkCursorAlwaysResolved(p *core.Prog, r *core.Report, rule string) {
	fn := p.Func(pkgPipe, "resolveStartBlockNum")
	r.Touch(core.FuncName(fn))
	var parse ssa.Instruction
	core.Instrs(fn, func(in ssa.Instruction) {
		if cl := core.CalleeOf(in); cl != nil && cl.Name() == "CursorFromOpaque" && cl.Pkg() != nil && strings.HasSuffix(cl.Pkg().Path(), "/bstream") {
			parse = in
		}
	})
	var resolver *ssa.Parameter
	for _, prm := range fn.Params {
		if sig, ok := prm.Type().Underlying().(*types.Signature); ok {
			// the resolver is the function-typed parameter that takes the cursor
			for i := 0; i < sig.Params().Len(); i++ {
				if strings.HasSuffix(sig.Params().At(i).Type().String(), "bstream.Cursor") {
					resolver = prm
				}
			}
		}
	}
	if parse == nil || resolver == nil {
		core.Undecide("resolveStartBlockNum: cursor parsing call or resolver parameter not found")
	}
	isResolve := func(in ssa.Instruction) bool {
		c, ok := in.(*ssa.Call)
		return ok && c.Call.Value == ssa.Value(resolver)
	}
	if len(core.FindInstrsIn(fn, isResolve)) == 0 {
		core.Undecide("resolveStartBlockNum: the cursor resolver is never called")
	}
	var finalEdges []core.Edge
	core.Instrs(fn, func(in ssa.Instruction) {
		ifi, ok := in.(*ssa.If)
		if !ok {
			return
		}
		c, neg := core.StripNot(ifi.Cond)
		call, ok := c.(*ssa.Call)
		if !ok {
			return
		}
		if cl := core.CommonCallee(call.Common()); cl != nil && cl.Name() == "IsOnFinalBlock" {
			idx := 0
			if neg {
				idx = 1
			}
			finalEdges = append(finalEdges, core.Edge{From: ifi.Block(), Idx: idx})
		}
	})
	q := core.PathQuery{Fn: fn, Inter: -1, CutInstr: isResolve, CutEdge: func(e core.Edge) bool { return containsEdge(finalEdges, e) }}
	hit, reach := q.CanReach(parse, func(in ssa.Instruction) bool {
		rt, ok := in.(*ssa.Return)
		return ok && core.ErrorResultState(rt) <= 0
	})
	d := ""
	if reach {
		d = "a return without error at " + p.Pos(core.InstrPos(hit)) + " is reachable from the parsed cursor without the resolver and without the final-block test"
	}
	r.Check(!reach, rule, "resolveStartBlockNum/cursor-resolved", "once the start cursor is parsed every return without error passes the cursor resolver, except behind cursor.IsOnFinalBlock()", d, p.Pos(fn.Pos()))
}

// checkUndoOpensRegardlessOfBlock (C03.R5): for an undo step the gate's answer is undoOpens whatever the block number.
// A client that resumed from a cursor holds only blocks below its new start block, so an undo it must hear about is
// always below the start block: the comparison of the block number with the start block belongs to the new-block
// branch only.  From the entry of blockTriggersGate a return of the undoOpens parameter is reachable without crossing
// a branch on the block number.
func checkUndoOpensRegardlessOfBlock(p *core.Prog, r *core.Report, rule string) {
	fn := p.Func(pkgPipe, "blockTriggersGate")
	r.Touch(core.FuncName(fn))
	var blockNum, undoOpens *ssa.Parameter
	for _, prm := range fn.Params {
		if bt, ok := prm.Type().Underlying().(*types.Basic); ok {
			if bt.Kind() == types.Bool {
				undoOpens = prm
			} else if bt.Kind() == types.Uint64 && blockNum == nil {
				blockNum = prm
			}
		}
	}
	if blockNum == nil || undoOpens == nil {
		core.Undecide("blockTriggersGate: parameters not recognised")
	}
	onBlock := func(in ssa.Instruction) bool {
		ifi, ok := in.(*ssa.If)
		if !ok {
			return false
		}
		return core.ParamSources(ifi.Cond, 0)[blockNum]
	}
	q := core.PathQuery{Fn: fn, Inter: -1, CutInstr: onBlock}
	_, reach := q.CanReach(nil, func(in ssa.Instruction) bool {
		rt, ok := in.(*ssa.Return)
		if !ok {
			return false
		}
		for _, v := range core.ReturnValues(rt) {
			if core.ParamSources(v, 0)[undoOpens] && !core.ParamSources(v, 0)[blockNum] {
				return true
			}
		}
		return false
	})
	r.Check(reach, rule, "blockTriggersGate/undo-any-block", "for an undo step the gate answers undoOpens without consulting the block number: the start-block comparison is confined to the new-block branch", "every way to the undoOpens answer crosses a branch on the block number", p.Pos(fn.Pos()))
}

// checkStepEqualityCoversCombined (C04.R1): a bstream step is a bit set; a block that is new and already final arrives
// as StepNewIrreversible (New|Irreversible) — the step of every historical block read from merged files.  A function
// that tests a step for *equality* with StepNew therefore also has the equality case StepNewIrreversible (the
// exhaustive switch of Pipeline.processBlock); everywhere else the bit test step.Matches(StepNew) is what selects new
// blocks.  An equality dispatch without the combined case ignores exactly those blocks (the cursor resolver's
// junctionBlockGetter then never sees the block that follows a final cursor: the resumed stream hangs or restarts from
// the LIB and delivers blocks twice).
func checkStepEqualityCoversCombined(p *core.Prog, r *core.Report, rule string) {
	var bs *types.Package
	for _, imp := range p.Pkg(pkgPipe).Types.Imports() {
		if strings.HasSuffix(imp.Path(), "streamingfast/bstream") {
			bs = imp
		}
	}
	if bs == nil {
		core.Undecide("pipeline does not import bstream")
	}
	val := func(name string) int64 {
		c, ok := bs.Scope().Lookup(name).(*types.Const)
		if !ok {
			core.Undecide("bstream.%s not found", name)
		}
		v, _ := constant.Int64Val(c.Val())
		return v
	}
	vNew, vNewIrr := val("StepNew"), val("StepNewIrreversible")
	stepT := bs.Scope().Lookup("StepType")
	if stepT == nil {
		core.Undecide("bstream.StepType not found")
	}
	nFuncs, nEq := 0, 0
	for _, fn := range p.RepoFunctions() {
		if fn.Blocks == nil {
			continue
		}
		eq := map[int64]ssa.Instruction{}
		core.Instrs(fn, func(in ssa.Instruction) {
			bo, ok := in.(*ssa.BinOp)
			if !ok || (bo.Op != token.EQL && bo.Op != token.NEQ) {
				return
			}
			for _, pair := range [][2]ssa.Value{{bo.X, bo.Y}, {bo.Y, bo.X}} {
				k, isK := pair[1].(*ssa.Const)
				if !isK || k.Value == nil || k.Value.Kind() != constant.Int {
					continue
				}
				nt, isNamed := pair[0].Type().(*types.Named)
				if !isNamed || nt.Obj() != stepT {
					continue
				}
				v, _ := constant.Int64Val(k.Value)
				if _, dup := eq[v]; !dup {
					eq[v] = in
				}
			}
		})
		if len(eq) == 0 {
			continue
		}
		nFuncs++
		if at, ok := eq[vNew]; ok {
			nEq++
			_, both := eq[vNewIrr]
			r.Check(both, rule, shortFn(fn)+"/step-equality", "a function that compares a step for equality with StepNew also has the case StepNewIrreversible (otherwise step.Matches(StepNew) is the test): a new block that is already final is not dropped", "equality with StepNew only", p.Pos(at.Pos()))
		}
	}
	if nFuncs < 2 || nEq < 1 {
		core.Undecide("only %d functions compare a step for equality (%d with StepNew): the reference form of Pipeline.processBlock was not recognised", nFuncs, nEq)
	}
}
