package props

import (
	"fmt"
	"go/types"
	"strings"

	"golang.org/x/tools/go/ssa"

	"verif/sa/core"
)

func init() {
	register("C11", &Def{
		Title:     "Store size accounting is exact, so size limits are enforced consistently",
		Run:       runC11,
		Technique: "static analysis: field-writer ownership tables, path-sensitive effect summaries of every mutator against size = Σ len(k)+len(v), typestate precondition (setNewKV only under !found), must-pass-through of the limit test",
		Explanation: "The invariant totalSizeBytes = Σ len(k)+len(v) is inductive; each rule discharges one induction step for all inputs: (R1) only the listed functions write baseStore.kv / totalSizeBytes; " +
			"(R2) each of those mutators changes totalSizeBytes by exactly the change of the sum (effect summaries per path: ApplyDelta, ApplyDeltasReverse, setKV, setNewKV; Load assigns kv and size from the same Unmarshal result); " +
			"(R3) setNewKV (which adds len(k)+len(v) unconditionally) is only called on a key proven absent by a dominating `_, found := b.kv[k]` with found == false on the same key; " +
			"(R4) the deltas handed to ApplyDelta carry the value found just before as OldValue and CREATE only when absent (shared with C08.R4); " +
			"(R5) in ApplyDelta the limit comparison follows every growth and its exceeding branch panics; " +
			"(R6) the deltas recorded for a not-yet-final block are forgotten on every success path of the undo, stalled and final handlers, so a block re-applied after a flip-back is never reversed twice.",
		NotCovered:  "\"rejected exactly when\" across merges (Merge applies no limit test), uint64 wrap-around.",
		Assumptions: []string{"the marshaller's Unmarshal returns the recounted size (C18.R3)", "map values are not mutated in place after insertion (byte slices are cloned at the recorders)"},
	})
}

func runC11(p *core.Prog, r *core.Report) {
	kv := func() *types.Var { return p.Field(pkgStore, "baseStore", "kv") }
	size := func() *types.Var { return p.Field(pkgStore, "baseStore", "totalSizeBytes") }

	// ---- R1 writers
	r.Guard("C11.R1", "kv/writers", "writers of baseStore.kv", func() {
		checkWriters(p, r, "C11.R1", "baseStore.kv", kv(), map[string]string{
			"(*storage/store.baseStore).ApplyDelta":         "applies one delta, size updated in the same case (R2)",
			"(*storage/store.baseStore).ApplyDeltasReverse": "reverts deltas, size updated in the same case (R2)",
			"(*storage/store.baseStore).setKV":              "merge writer, size updated (R2)",
			"(*storage/store.baseStore).setNewKV":           "merge writer for absent keys, size updated (R2, R3)",
			"(*storage/store.FullKV).Load":                  "kv and size assigned from the same Unmarshal result (R2)",
			"(*storage/store.PartialKV).Load":               "kv and size assigned from the same Unmarshal result (R2)",
			"(*storage/store.PartialKV).Roll":               "replaces kv by an empty map and resets the size to zero in the same function (R2 PartialKV.Roll)",
			"(*storage/store.FullKV).DerivePartialStore":    "constructor: fresh struct, empty map, size zero",
			"(*storage/store.Config).newBaseStore":          "constructor: fresh struct, empty map, size zero",
		})
	})
	r.Guard("C11.R1", "totalSizeBytes/writers", "writers of baseStore.totalSizeBytes", func() {
		checkWriters(p, r, "C11.R1", "baseStore.totalSizeBytes", size(), map[string]string{
			"(*storage/store.baseStore).ApplyDelta":         "R2",
			"(*storage/store.baseStore).ApplyDeltasReverse": "R2",
			"(*storage/store.baseStore).setKV":              "R2",
			"(*storage/store.baseStore).setNewKV":           "R2",
			"(*storage/store.FullKV).Load":                  "R2",
			"(*storage/store.PartialKV).Load":               "R2",
			"(*storage/store.PartialKV).Roll":               "R2",
		})
	})

	// ---- R2 effects
	r.Guard("C11.R2", "ApplyDelta", "forward delta effects", func() {
		checkDeltaEffects(p, r, "C11.R2", "baseStore.ApplyDelta", false, deltaSpecApply)
	})
	r.Guard("C11.R2", "ApplyDeltasReverse", "reverse delta effects", func() {
		checkDeltaEffects(p, r, "C11.R2", "baseStore.ApplyDeltasReverse", true, deltaSpecReverse)
	})
	r.Guard("C11.R2", "setKV", "setKV effect", func() { checkSetKV(p, r, "baseStore.setKV", false) })
	r.Guard("C11.R2", "setNewKV", "setNewKV effect", func() { checkSetKV(p, r, "baseStore.setNewKV", true) })
	r.Guard("C11.R2", "retry-accumulators", "a retried download starts from nothing", func() { checkRetryAccumulatesNothing(p, r, "C11.R2") })
	r.Guard("C11.R2", "PartialKV.Roll", "roll empties content and size together", func() {
		fn := p.Func(pkgStore, "PartialKV.Roll")
		r.Touch(core.FuncName(fn))
		nKV, okKV, okSz := 0, true, false
		for _, w := range core.FieldWritesIn(fn, kv()) {
			nKV++
			mm, isMake := w.Value.(*ssa.MakeMap)
			if w.Kind != core.WAssign || !isMake || !(mm.Reserve == nil || isZeroConst(mm.Reserve)) {
				okKV = false
			}
		}
		for _, w := range core.FieldWritesIn(fn, size()) {
			if w.Kind == core.WAssign && isZeroConst(w.Value) {
				okSz = true
			}
		}
		// on every path: no return between the two assignments matters little here (straight-line), but require both on all paths
		_, missKV := core.MustReachAfter(fn, fn.Blocks[0].Instrs[0], func(x ssa.Instruction) bool {
			for _, w := range core.FieldWritesIn(fn, size()) {
				if w.Instr == x {
					return true
				}
			}
			return false
		}, nil)
		r.Check(nKV > 0 && okKV && okSz && missKV, "C11.R2", "PartialKV.Roll", "rolling a partial store replaces its content by an empty map AND resets the reported size to zero on every path", fmt.Sprintf("kv←empty map: %v (%d writes); size←0: %v; on every path: %v", okKV, nKV, okSz, missKV), p.Pos(fn.Pos()))
	})
	for _, m := range []string{"FullKV.Load", "PartialKV.Load"} {
		m := m
		r.Guard("C11.R2", m, "load assigns kv and size from one Unmarshal", func() {
			fn := p.Func(pkgStore, m)
			r.Touch(core.FuncName(fn))
			unm := p.FuncObj(pkgMarsh, "Marshaller.Unmarshal")
			var kvCall, szCall *ssa.Call
			okKV, okSz := false, false
			for _, w := range core.FieldWritesIn(fn, kv()) {
				if w.Kind != core.WAssign {
					continue
				}
				if _, isMake := w.Value.(*ssa.MakeMap); isMake {
					continue // `if kv == nil { kv = make(...) }`: empty map, size of an empty snapshot is 0
				}
				// value must be field Kv of result #0 of Unmarshal (possibly passed through a helper of the package that only
				// replaces a nil map by an empty one)
				val := w.Value
				if hc, ok := val.(*ssa.Call); ok && len(hc.Call.Args) == 1 {
					if h := core.StaticFn(hc.Common()); h != nil && h.Pkg == fn.Pkg && h.Blocks != nil {
						passes := true
						core.Instrs(h, func(in ssa.Instruction) {
							if rt, ok := in.(*ssa.Return); ok && len(rt.Results) == 1 {
								rv := core.ReturnValues(rt)[0]
								if _, isMk := rv.(*ssa.MakeMap); !isMk && rv != ssa.Value(h.Params[0]) {
									passes = false
								}
							}
						})
						if passes {
							val = hc.Call.Args[0]
						}
					}
				}
				f, base := core.LoadedField(val)
				if f != nil && f.Name() == "Kv" {
					if ex, ok := base.(*ssa.Extract); ok && ex.Index == 0 {
						if c, ok := ex.Tuple.(*ssa.Call); ok && core.CommonCallee(c.Common()) == unm {
							kvCall, okKV = c, true
						}
					}
				}
			}
			for _, w := range core.FieldWritesIn(fn, size()) {
				if ex, ok := w.Value.(*ssa.Extract); ok && ex.Index == 1 {
					if c, ok := ex.Tuple.(*ssa.Call); ok && core.CommonCallee(c.Common()) == unm {
						szCall, okSz = c, true
					}
				}
			}
			r.Check(okKV && okSz && kvCall == szCall, "C11.R2", m, "Load assigns kv from the unmarshalled data and totalSizeBytes from the size returned by the same Unmarshal call",
				fmt.Sprintf("kv from Unmarshal: %v, size from Unmarshal: %v, same call: %v", okKV, okSz, kvCall == szCall), p.Pos(fn.Pos()))
			// the nil-map fallback only under kv == nil
			for _, w := range core.FieldWritesIn(fn, kv()) {
				if _, isMake := w.Value.(*ssa.MakeMap); isMake {
					mm := w.Value.(*ssa.MakeMap)
					r.Check(mm.Reserve == nil || isZeroConst(mm.Reserve), "C11.R2", m+"/empty-fallback", "the fallback map assigned on load is empty", "non-empty", p.Pos(w.Instr.Pos()))
				}
			}
		})
	}

	// ---- R3 setNewKV only on absent keys
	r.Guard("C11.R3", "setNewKV/callers", "setNewKV preconditions", func() { checkSetNewKVCallers(p, r, "C11.R3") })

	// ---- R4 shared with C08.R4
	r.Guard("C11.R4", "deltas", "delta construction", func() { checkDeltaConstruction(p, r, "C11.R4") })

	// ---- R5 limit test after growth
	r.Guard("C11.R5", "Merge/limit", "limit test after a merge", func() { checkMergeLimit(p, r, "C11.R5") })
	r.Guard("C11.R5", "ApplyDelta/limit", "limit test", func() {
		fn := p.Func(pkgStore, "baseStore.ApplyDelta")
		sz := size()
		limit := p.Field(pkgStore, "Config", "totalSizeLimit")
		isSz := func(v ssa.Value) bool { f, _ := core.LoadedField(core.SkipConv(v)); return f == sz }
		isLim := func(v ssa.Value) bool { f, _ := core.LoadedField(core.SkipConv(v)); return f == limit }
		var tests []ssa.Instruction
		core.InstrsDeep(fn, func(in ssa.Instruction) {
			ifi, ok := in.(*ssa.If)
			if !ok {
				return
			}
			onT, onF, ok := core.CondRelation(ifi.Cond, isSz, isLim)
			if !ok {
				return
			}
			// the edge on which size > limit must only panic; the other edge allows size <= limit
			var over *ssa.BasicBlock
			switch {
			case onT == core.OrdGT && onF == core.OrdLT|core.OrdEQ:
				over = ifi.Block().Succs[0]
			case onF == core.OrdGT && onT == core.OrdLT|core.OrdEQ:
				over = ifi.Block().Succs[1]
			default:
				r.Fail("C11.R5", "ApplyDelta/limit-cmp", "the limit test is `size > limit`", fmt.Sprintf("relation on true edge is size %s limit", core.OrdString(onT)), p.Pos(ifi.Cond.Pos()))
				return
			}
			r.Check(core.OnlyPanicsFrom(over), "C11.R5", "ApplyDelta/limit-panics", "exceeding the limit aborts the write (panic turned into an error by Flush)", "a normal return is reachable when size > limit", p.Pos(ifi.Cond.Pos()))
			tests = append(tests, in)
		})
		if len(tests) == 0 {
			r.Fail("C11.R5", "ApplyDelta/limit-test", "ApplyDelta compares totalSizeBytes with the configured limit", "no such comparison found", p.Pos(fn.Pos()))
			return
		}
		isTest := func(in ssa.Instruction) bool {
			for _, t := range tests {
				if t == in {
					return true
				}
			}
			return false
		}
		// every MapUpdate on kv (growth: CREATE/UPDATE) must reach the test before returning
		n := 0
		for _, w := range core.FieldWritesIn(fn, kv()) {
			if w.Kind != core.WMapSet {
				continue
			}
			n++
			hit, ok := core.MustReachAfter(fn, w.Instr, isTest, nil)
			lbl := strings.Join(p.CaseLabels(w.Instr.Pos()), "/")
			r.Check(ok, "C11.R5", "ApplyDelta/limit-after/"+lbl, "after a write that can grow the store, the limit test is reached before ApplyDelta returns", "return without limit test at "+p.Pos(core.InstrPos(hit)), p.Pos(w.Instr.Pos()))
		}
		if n < 2 {
			core.Undecide("ApplyDelta: fewer than two kv writes found")
		}
	})

	// ---- R6 a block's deltas are reversed at most once per application (shared with C03.R3)
	checkReversibleForgotten(p, r, "C11.R6")

	r.MinInstances("C11.R1", 10)
	r.MinInstances("C11.R2", 12)
	r.MinInstances("C11.R3", 10)
	r.MinInstances("C11.R5", 3)
}

func isZeroConst(v ssa.Value) bool {
	c, ok := v.(*ssa.Const)
	if !ok || c.Value == nil {
		return false
	}
	return c.Value.ExactString() == "0"
}

// checkSetKV verifies the size effect of setKV / setNewKV.
func checkSetKV(p *core.Prog, r *core.Report, name string, isNew bool) {
	fn := p.Func(pkgStore, name)
	r.Touch(core.FuncName(fn))
	if len(fn.Params) != 3 {
		core.Undecide("%s: expected (receiver, key, value) parameters", name)
	}
	k, v := fn.Params[1].Name(), fn.Params[2].Name()
	cfg := &core.SymConfig{Fn: fn,
		IntFields: map[*types.Var]string{p.Field(pkgStore, "baseStore", "totalSizeBytes"): "size"},
		MapFields: map[*types.Var]string{p.Field(pkgStore, "baseStore", "kv"): "kv"}}
	paths := core.Summarize(cfg)
	wantMap := fmt.Sprintf("kv[%s]=%s", k, v)
	n := 0
	for _, ps := range paths {
		if ps.End == "panic" {
			continue
		}
		n++
		var ms []string
		for _, m := range ps.Maps {
			ms = append(ms, m.String())
		}
		sz := ps.Ints["size"]
		if sz.T == nil {
			sz = core.LinConst(0)
		}
		// classify the path by the has(kv@0,k) condition
		present, known := false, false
		for _, c := range ps.Conds {
			if c.Op == "true" && c.X == fmt.Sprintf("has(kv@0,%s)", k) {
				present, known = !c.Neg, true
			}
		}
		var want core.Lin
		var construct, desc string
		switch {
		case isNew:
			want = lin("len("+k+")", "len("+v+")")
			construct, desc = name, "setNewKV adds len(key)+len(value) and stores the value"
			if known {
				construct = name + "/conditional"
			}
		case known && present:
			want = lin("len("+v+")", "-len(kv@0["+k+"])")
			construct, desc = name+"/present", "setKV on a present key changes the size by len(value) − len(previous value)"
		case known && !present:
			want = lin("len("+k+")", "len("+v+")")
			construct, desc = name+"/absent", "setKV on an absent key adds len(key)+len(value)"
		default:
			r.Fail("C11.R2", name+"/unclassified", "setKV distinguishes present and absent keys by a lookup in kv", "path without a presence test: size effect "+sz.String(), p.Pos(fn.Pos()))
			continue
		}
		bad := ""
		if strings.Join(ms, ";") != wantMap {
			bad = fmt.Sprintf("kv effect is %q, want %q; ", strings.Join(ms, ";"), wantMap)
		}
		if !sz.Equal(want) {
			bad += fmt.Sprintf("size effect is %s, want %s", sz, want)
		}
		r.Check(bad == "", "C11.R2", construct, desc, bad, p.Pos(fn.Pos()))
	}
	if n == 0 {
		core.Undecide("%s: no normal path", name)
	}
}

// checkSetNewKVCallers: every call of setNewKV is dominated by a lookup of the
// same key in b.kv whose `found` result is false on the only way to the call,
// with no write to kv in between.
func checkSetNewKVCallers(p *core.Prog, r *core.Report, rule string) {
	obj := p.FuncObj(pkgStore, "baseStore.setNewKV")
	kv := p.Field(pkgStore, "baseStore", "kv")
	count := map[string]int{}
	total := 0
	for _, fn := range p.RepoFunctions() {
		calls := core.FindInstrsIn(fn, core.IsCallTo(obj))
		if len(calls) == 0 {
			continue
		}
		r.Touch(core.FuncName(fn))
		for _, c := range calls {
			total++
			r.CallSites++
			cc := c.(ssa.CallInstruction).Common()
			key := cc.Args[1]
			labels := p.CaseLabels(c.Pos())
			base := core.FuncName(core.RootFn(fn)) + "/" + strings.Join(labels, "/")
			count[base]++
			construct := fmt.Sprintf("%s/setNewKV#%d", base, count[base])
			desc := "setNewKV is called only on a key proven absent from kv (lookup of the same key with found == false dominates the call)"
			ok, why := absentProven(fn, c, key, kv)
			r.Check(ok, rule, construct, desc, why, p.Pos(c.Pos()))
		}
	}
	if total == 0 {
		core.Undecide("no call of setNewKV found")
	}
}

func absentProven(fn *ssa.Function, call ssa.Instruction, key ssa.Value, kv *types.Var) (bool, string) {
	// candidate lookups: CommaOk lookups in kv with the same key value
	var lookups []*ssa.Lookup
	core.Instrs(fn, func(in ssa.Instruction) {
		lk, ok := in.(*ssa.Lookup)
		if !ok || !lk.CommaOk {
			return
		}
		f, _ := core.LoadedField(lk.X)
		if f != kv {
			return
		}
		if sameValue(lk.Index, key) {
			lookups = append(lookups, lk)
		}
	})
	if len(lookups) == 0 {
		return false, "no lookup of the same key in kv precedes the call (key absent is not established)"
	}
	isKVWrite := func(in ssa.Instruction) bool {
		switch x := in.(type) {
		case *ssa.MapUpdate:
			f, _ := core.LoadedField(x.Map)
			return f == kv
		case ssa.CallInstruction:
			if x == call {
				return false
			}
			if callee := core.StaticFn(x.Common()); callee != nil {
				return core.MayDo(callee, func(y ssa.Instruction) bool {
					mu, ok := y.(*ssa.MapUpdate)
					if !ok {
						return false
					}
					f, _ := core.LoadedField(mu.Map)
					return f == kv
				}, 1)
			}
		}
		return false
	}
	why := ""
	for _, lk := range lookups {
		// the `found` component and the If(s) testing it
		var found ssa.Value
		for _, ref := range *lk.Referrers() {
			if ex, ok := ref.(*ssa.Extract); ok && ex.Index == 1 {
				found = ex
			}
		}
		if found == nil {
			continue
		}
		var absentEdges []core.Edge
		core.InstrsDeep(fn, func(in ssa.Instruction) {
			ifi, ok := in.(*ssa.If)
			if !ok {
				return
			}
			c, neg := core.StripNot(ifi.Cond)
			if c != found {
				return
			}
			if neg { // if !found → true edge is "absent"
				absentEdges = append(absentEdges, core.Edge{From: ifi.Block(), Idx: 0})
			} else {
				absentEdges = append(absentEdges, core.Edge{From: ifi.Block(), Idx: 1})
			}
		})
		if len(absentEdges) == 0 {
			why = "the lookup's found result is not tested"
			continue
		}
		// 1. the lookup dominates the call
		if _, ok := core.MustPassBefore(fn, func(in ssa.Instruction) bool { return in == ssa.Instruction(lk) }, func(in ssa.Instruction) bool { return in == call }); !ok {
			why = "a path reaches the call without the lookup"
			continue
		}
		// 2. from the lookup, the call is reachable only through an absent edge, and without a kv write or a new lookup in between
		q := core.PathQuery{Fn: fn,
			CutEdge:  func(e core.Edge) bool { return containsEdge(absentEdges, e) },
			CutInstr: func(in ssa.Instruction) bool { return in == ssa.Instruction(lk) }}
		if _, reach := q.CanReach(lk, func(in ssa.Instruction) bool { return in == call }); reach {
			why = "the call is reachable on a path where the key was found (or found was not tested)"
			continue
		}
		q2 := core.PathQuery{Fn: fn, CutInstr: func(in ssa.Instruction) bool { return in == call || in == ssa.Instruction(lk) }}
		if hit, reach := q2.CanReach(lk, func(in ssa.Instruction) bool {
			if !isKVWrite(in) {
				return false
			}
			// only writes from which the call is still reachable matter
			q3 := core.PathQuery{Fn: fn, CutInstr: func(x ssa.Instruction) bool { return x == ssa.Instruction(lk) }}
			_, r := q3.CanReach(in, func(x ssa.Instruction) bool { return x == call })
			return r
		}); reach {
			_ = hit
			why = "kv is written between the lookup and the call"
			continue
		}
		return true, ""
	}
	return false, why
}

func containsEdge(es []core.Edge, e core.Edge) bool {
	for _, x := range es {
		if x == e {
			return true
		}
	}
	return false
}

// sameValue: identical SSA value, or both the same Extract/Next component (range key).
func sameValue(a, b ssa.Value) bool {
	a, b = core.SkipConv(a), core.SkipConv(b)
	return a == b
}
