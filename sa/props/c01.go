package props

import (
	"fmt"
	"go/constant"
	"go/token"
	"go/types"

	"golang.org/x/tools/go/ssa"

	"verif/sa/core"
)

func init() {
	register("C01", &Def{
		Title:     "Output is independent of execution strategy: parallel, cached or linear",
		Run:       runC01,
		Technique: "static analysis: map-iteration-order determinism of everything written to streams, cache files and stores; provenance of cache locations from the module hash; freshness of every mutated block-index bitmap; structural completeness of the block-source-skip predicate against the executor's never-skip conditions",
		Explanation: "Equality of the streams produced by different strategies is NOT decided (it needs executing module graphs over schedules and cache histories). Decided are necessary conditions: " +
			"(R1) nothing that reaches a client stream, a cache file or a store depends on Go map iteration order: every map-range loop reachable from block processing, the tier-2 job, the cached-output walker, store flush/merge/save and the squasher is per-key commutative, sorted before use, or listed with a reason; " +
			"(R2) every cache location is derived from the module hash (never the module name), so a changed module cannot be served its predecessor's outputs; " +
			"(R3) a tier-2 job replaces the block stream by the clocks of cached outputs only when no module that still has to run executes on every block: canSkipBlockSource refuses for a required module that reads the block source, that reads only the clock, or that has only a params input — the same never-skip conditions the executor (canSkipExecution) uses.; (R4) the bitmaps of a cached block-index file, shared by every filtered module of a request, are never mutated (mutating bitmap methods only on Clone()/New() results), so the run/skip decisions taken from a cached index equal those taken on the fly when no index is cached. (R5) a cached-output file object is flagged loaded only after a successful load, so a file that did not exist yet when the walker pre-loaded it is read again instead of being served as an empty segment. (R6) a partial store is merged into the full store standing exactly at the partial's first block (getStore(range.StartBlock), which reuses the in-memory store only at that block), so skipping segments whose snapshots are already cached cannot merge onto a stale store. (R7) the loops that execute a block's modules, apply and export their results, flush/reset/save stores, feed and close the caches and run the hooks all run to their bound: the only early ways out are an error return or a panic, so nothing is silently left unprocessed on one strategy and processed on another.",
		NotCovered:  "That parallel, cached and linear strategies compute equal payloads; that store reads at block N equal a sequential run (C02/C09 cover the store-side structural parts).",
		Assumptions: []string{"WASM modules are deterministic functions of their inputs", "readers of map-encoded files rebuild a map (file equality is content equality, not byte equality)"},
	})
}

func c01Roots(p *core.Prog) []*ssa.Function {
	return []*ssa.Function{
		p.Func(pkgPipe, "Pipeline.ProcessBlock"), p.Func(pkgPipe, "Pipeline.ProcessFromExecOutput"),
		p.Func(pkgSvc, "Tier2Service.processRange"), p.Func(pkgOExec, "Walker.sendItems"),
		p.Func(pkgStore, "baseStore.Flush"), p.Func(pkgStore, "baseStore.Merge"),
		p.Func(pkgStore, "FullKV.Save"), p.Func(pkgStore, "PartialKV.Save"),
		p.Func(pkgExecout, "File.Save"), p.Func(pkgIndex, "File.Save"),
		p.Func(pkgStage, "Stages.multiSquash"), p.Func(pkgPipe, "Pipeline.OnStreamTerminated"),
		p.Func(pkgCache, "Engine.EndOfStream"), p.Func(pkgCache, "Engine.HandleFinal"), p.Func(pkgCache, "Engine.NewBuffer"),
		p.Func(pkgExecout, "File.SortedItems"),
	}
}

func runC01(p *core.Prog, r *core.Report) {
	r.Guard("C01.R1", "determinism", "map order", func() {
		checkMapOrder(p, r, "C01.R1", c01Roots(p), mapOrderAllow)
	})
	r.Guard("C01.R2", "cache-paths", "cache locations derive from the hash", func() { checkCachePaths(p, r, "C01.R2") })
	r.Guard("C01.R3", "canSkipBlockSource", "block source skipped only when nobody needs it", func() { checkCanSkipBlockSource(p, r) })
	checkSharedBitmaps(p, r, "C01.R4")
	r.Guard("C01.R6", "job-stores", "stores a job starts from", func() { checkSubrequestStores(p, r, "C01.R6") })
	r.Guard("C01.R6", "squash-base", "merge base", func() { checkSquashBase(p, r, "C01.R6") })
	r.Guard("C01.R5", "execout.File.Load", "a failed load is never remembered as loaded", func() { checkExecoutLoadedFlag(p, r, "C01.R5") })
	r.Guard("C01.R7", "visits-all", "no silent truncation", func() {
		n := checkNoSilentTruncation(p, r, "C01.R7", []loopSite{
			{pkgPipe, "Pipeline.executeModules", nil}, {pkgPipe, "Pipeline.applyExecutionResult", nil}, {pkgPipe, "Stores.flushStores", nil},
			{pkgPipe, "Stores.resetStores", nil}, {pkgPipe, "Stores.saveStoresSnapshots", nil}, {pkgPipe, "returnModuleDataOutputs", nil},
			{pkgPipe, "toRPCDeltas", nil}, {pkgCache, "Engine.HandleFinal", nil}, {pkgCache, "Engine.EndOfStream", nil}, {pkgCache, "Engine.NewBuffer", nil},
			{pkgPipe, "Pipeline.BuildModuleExecutors", nil}, {pkgPipe, "Pipeline.runPostJobHooks", nil}, {pkgPipe, "Pipeline.runPreBlockHooks", nil},
			{pkgPipe, "Pipeline.OnStreamTerminated", nil}, {pkgPipe, "Pipeline.cleanUpModuleExecutors", nil}, {pkgExecout, "File.ExtractClocks", nil},
			{pkgStage, "Stages.multiSquash", nil}, {pkgPipe, "Pipeline.handleStepNew", nil},
		})
		if n < 15 {
			core.Undecide("only %d loops examined", n)
		}
	})
	r.MinInstances("C01.R1", 15)
	r.MinInstances("C01.R2", 8)
	r.MinInstances("C01.R4", 4)
}

// checkCanSkipBlockSource (C01.R3): the predicate that lets a tier-2 job replace
// the block stream by clocks of cached outputs mirrors the executor's never-skip
// conditions (block source, clock-only, params-only).
func checkCanSkipBlockSource(p *core.Prog, r *core.Report) {
	fn := p.Func(pkgSvc, "canSkipBlockSource")
	r.Touch(core.FuncName(fn))
	srcT := p.Named(pkgPBV1, "Module_Input_Source")
	typeF := core.FieldOf(srcT, "Type")
	clockConst := p.Const(pkgWasm, "ClockType")
	clockVal := constant.StringVal(clockConst.Val())
	var blockTypePrm *ssa.Parameter
	for _, prm := range fn.Params {
		if b, ok := prm.Type().Underlying().(*types.Basic); ok && b.Kind() == types.String {
			blockTypePrm = prm
		}
	}
	if blockTypePrm == nil {
		core.Undecide("canSkipBlockSource: block type parameter not found")
	}
	// the decision functions: canSkipBlockSource itself and the boolean helpers it calls with the module
	type fnCtx struct {
		fn        *ssa.Function
		blockType ssa.Value // the value denoting the block type inside fn
		negated   bool      // helper returns "runs on every block" (true ⇒ cannot skip)
	}
	ctxs := []fnCtx{{fn, blockTypePrm, false}}
	core.Instrs(fn, func(in ssa.Instruction) {
		c, ok := in.(*ssa.Call)
		if !ok {
			return
		}
		callee := core.StaticFn(c.Common())
		if callee == nil || !core.IsRepo(callee) || callee.Blocks == nil || callee.Signature.Results().Len() != 1 {
			return
		}
		if b, ok := callee.Signature.Results().At(0).Type().Underlying().(*types.Basic); !ok || b.Kind() != types.Bool {
			return
		}
		for i, a := range c.Call.Args {
			if a == ssa.Value(blockTypePrm) {
				// caller: if helper(...) { return false }
				neg := false
				for _, ref := range *c.Referrers() {
					if ifi, ok := ref.(*ssa.If); ok {
						tb := ifi.Block().Succs[0]
						if ret, ok := tb.Instrs[len(tb.Instrs)-1].(*ssa.Return); ok {
							if k, ok := ret.Results[0].(*ssa.Const); ok && k.Value.ExactString() == "false" {
								neg = true
							}
						}
					}
				}
				ctxs = append(ctxs, fnCtx{callee, callee.Params[i], neg})
			}
		}
	})
	retConst := func(b *ssa.BasicBlock, want string) bool {
		ret, ok := b.Instrs[len(b.Instrs)-1].(*ssa.Return)
		if !ok || len(ret.Results) != 1 {
			return false
		}
		k, ok := ret.Results[0].(*ssa.Const)
		return ok && k.Value != nil && k.Value.ExactString() == want
	}
	okBlock, okClock, okParams := false, false, false
	for _, cx := range ctxs {
		r.Touch(core.FuncName(cx.fn))
		refuse := "false" // value returned to refuse skipping, in canSkipBlockSource itself
		if cx.fn != fn {
			if !cx.negated {
				continue
			}
			refuse = "true"
		}
		core.Instrs(cx.fn, func(in ssa.Instruction) {
			ifi, ok := in.(*ssa.If)
			if !ok {
				return
			}
			isType := func(v ssa.Value) bool { f, _ := core.LoadedField(v); return f == typeF }
			// source type == block type → refuse
			if onT, onF, ok := core.CondRelation(ifi.Cond, isType, func(v ssa.Value) bool { return v == cx.blockType }); ok {
				var eq *ssa.BasicBlock
				if onT == core.OrdEQ {
					eq = ifi.Block().Succs[0]
				} else if onF == core.OrdEQ {
					eq = ifi.Block().Succs[1]
				}
				if eq != nil && retConst(eq, refuse) {
					okBlock = true
				}
			}
			// source type compared with the clock type
			if _, _, ok := core.CondRelation(ifi.Cond, isType, func(v ssa.Value) bool {
				s, ok := constString(v)
				return ok && s == clockVal
			}); ok {
				okClock = true
			}
		})
		// params-only: len(module.Inputs) == 1 together with a params test
		lenOne, params := false, false
		core.Instrs(cx.fn, func(in ssa.Instruction) {
			if bo, ok := in.(*ssa.BinOp); ok && bo.Op == token.EQL && isConstInt(bo.Y, 1) {
				if l := lenArg(bo.X); l != nil {
					if f, _ := core.LoadedField(l); f != nil && f.Name() == "Inputs" {
						lenOne = true
					}
				}
			}
			if c := core.CalleeOf(in); c != nil && c.Name() == "GetParams" {
				params = true
			}
			if ta, ok := in.(*ssa.TypeAssert); ok && typeName(ta.AssertedType) == "*Module_Input_Params_" {
				params = true
			}
		})
		if lenOne && params {
			okParams = true
		}
	}
	r.Check(okBlock, "C01.R3", "canSkipBlockSource/block-source", "a module that still has to run and reads the block source (input source type == block type) forbids skipping the block stream", "no `Source.Type == blockType → refuse` decision found", p.Pos(fn.Pos()))
	r.Check(okClock, "C01.R3", "canSkipBlockSource/clock-only", "the predicate distinguishes clock inputs (a module whose only value input is the clock runs on every block, see canSkipExecution)", "the source type is never compared with the clock type", p.Pos(fn.Pos()))
	r.Check(okParams, "C01.R3", "canSkipBlockSource/params-only", "the predicate recognises a module with a single params input (executed on every block, see canSkipExecution)", "no `len(Inputs) == 1` + params test found", p.Pos(fn.Pos()))
	// the executor side has the same never-skip conditions
	cse := p.Func(pkgExec, "canSkipExecution")
	r.Touch(core.FuncName(cse))
	clockCmp, single := false, false
	core.Instrs(cse, func(in ssa.Instruction) {
		if lk, ok := in.(*ssa.Lookup); ok {
			if s, ok := constString(lk.Index); ok && s == clockVal {
				clockCmp = true
			}
		}
		if ifi, ok := in.(*ssa.If); ok {
			if prm, ok := ifi.Cond.(*ssa.Parameter); ok && prm == cse.Params[1] {
				if retConst(ifi.Block().Succs[0], "false") {
					single = true
				}
			}
		}
	})
	r.Check(clockCmp && single, "C01.R3", "canSkipExecution/never-skip", "the executor never skips a module whose only value input is the clock or whose single input is params (the conditions canSkipBlockSource mirrors)", fmt.Sprintf("clock condition=%v single-params condition=%v", clockCmp, single), p.Pos(cse.Pos()))
	// modules with cached outputs are ignored, and without any cached output nothing is skipped
	okCached, okEmpty := false, false
	core.InstrsDeep(fn, func(in ssa.Instruction) {
		ifi, ok := in.(*ssa.If)
		if !ok {
			return
		}
		if bo, ok := ifi.Cond.(*ssa.BinOp); ok {
			if lk, ok := bo.X.(*ssa.Lookup); ok && lk.X == ssa.Value(fn.Params[0]) {
				if k, ok := bo.Y.(*ssa.Const); ok && k.IsNil() {
					okCached = true
				}
			}
			if l := lenArg(bo.X); l == ssa.Value(fn.Params[0]) && isZeroConst(bo.Y) && bo.Op == token.EQL && retConst(ifi.Block().Succs[0], "false") {
				okEmpty = true
			}
		}
	})
	r.Check(okCached, "C01.R3", "canSkipBlockSource/cached-ignored", "only modules without a cached output are examined", "lookup of the module in the existing outputs not found", p.Pos(fn.Pos()))
	r.Check(okEmpty, "C01.R3", "canSkipBlockSource/nothing-cached", "without any cached output there are no clocks to replay: the block stream is kept", "no `len(existing) == 0 → false`", p.Pos(fn.Pos()))
	// call site
	pr := p.Func(pkgSvc, "Tier2Service.processRange")
	okCall := false
	for _, c := range core.FindInstrs(pr, core.IsCallTo(p.FuncObj(pkgSvc, "canSkipBlockSource"))) {
		a := c.(ssa.CallInstruction).Common().Args
		if hasFieldNamed(core.Trace(a[0], 0), "ExistingExecOuts") && hasFieldNamed(core.Trace(a[1], 0), "RequiredModules") && hasFieldNamed(core.Trace(a[2], 0), "BlockType") {
			okCall = true
		}
	}
	r.Check(okCall, "C01.R3", "processRange/canSkip-args", "the predicate is evaluated on the plan's existing outputs and required modules and on the request's block type", "argument provenance differs", p.Pos(pr.Pos()))
}
