package props

import (
	"fmt"
	"go/token"
	"sort"
	"strings"

	"golang.org/x/tools/go/ssa"

	"verif/sa/core"
)

// checkSchedulerHelpers (C05.R4): the small predicates the merge and shadowing decisions rest on.
func checkSchedulerHelpers(p *core.Prog, r *core.Report) {
	stT := p.Named(pkgStage, "UnitState")
	nameOf := map[string]string{}
	for _, c := range core.EnumConsts(stT) {
		nameOf[c.Val().ExactString()] = c.Name()
	}
	getState := p.FuncObj(pkgStage, "Stages.getState")
	// states a getState(...) result is compared with (==) in fn, by the unit literal it is asked for
	type cmpSet struct {
		consts []string
		neq    bool
	}
	comparisons := func(fn *ssa.Function) map[ssa.Value]*cmpSet {
		out := map[ssa.Value]*cmpSet{}
		core.Instrs(fn, func(in ssa.Instruction) {
			bo, ok := in.(*ssa.BinOp)
			if !ok || (bo.Op != token.EQL && bo.Op != token.NEQ) {
				return
			}
			c, ok := bo.X.(*ssa.Call)
			k, ok2 := bo.Y.(*ssa.Const)
			if !ok || !ok2 || core.CommonCallee(c.Common()) != getState || k.Value == nil {
				return
			}
			cs := out[c]
			if cs == nil {
				cs = &cmpSet{}
				out[c] = cs
			}
			cs.consts = append(cs.consts, nameOf[k.Value.ExactString()])
			if bo.Op == token.NEQ {
				cs.neq = true
			}
		})
		return out
	}
	unitFields := func(v ssa.Value) map[string][]ssa.Value {
		// Unit{...} passed by value: load of a local literal
		if u, ok := v.(*ssa.UnOp); ok && u.Op == token.MUL {
			if al, ok := u.X.(*ssa.Alloc); ok {
				return core.LiteralFields(al)
			}
		}
		return nil
	}
	isFieldOfParam := func(v ssa.Value, prm *ssa.Parameter, field string) bool {
		switch x := core.SkipConv(v).(type) {
		case *ssa.Field:
			return x.X == ssa.Value(prm) && core.FieldOfValue(x).Name() == field
		case *ssa.UnOp:
			f, base := core.LoadedField(x)
			if f != nil && f.Name() == field {
				// parameter spilled to a local
				if ld, ok := base.(*ssa.Alloc); ok {
					for _, st := range core.StoresTo(ld) {
						if st.Val == ssa.Value(prm) {
							return true
						}
					}
				}
				return base == ssa.Value(prm)
			}
		}
		return false
	}
	// ---- previousUnitComplete(u): state of (u.Segment-1, u.Stage) ∈ {Completed, NoOp}
	pc := p.Func(pkgStage, "Stages.previousUnitComplete")
	r.Touch(core.FuncName(pc))
	up := pc.Params[1]
	okUnit, okSet := false, false
	for c, cs := range comparisons(pc) {
		lf := unitFields(c.(*ssa.Call).Call.Args[1])
		if lf == nil {
			continue
		}
		seg, stg := lf["Segment"], lf["Stage"]
		if len(seg) == 1 && len(stg) == 1 {
			if bo, ok := core.SkipConv(seg[0]).(*ssa.BinOp); ok && bo.Op == token.SUB && isFieldOfParam(bo.X, up, "Segment") {
				if k, ok := bo.Y.(*ssa.Const); ok && k.Int64() == 1 && isFieldOfParam(stg[0], up, "Stage") {
					okUnit = true
				}
			}
		}
		sort.Strings(cs.consts)
		okSet = !cs.neq && strings.Join(cs.consts, ",") == "UnitCompleted,UnitNoOp"
	}
	r.Check(okUnit && okSet, "C05.R4", "previousUnitComplete", "the previous unit is the same stage one segment earlier, and it is complete exactly when its state is Completed or NoOp", fmt.Sprintf("unit=(u.Segment-1,u.Stage): %v; states {Completed,NoOp}: %v", okUnit, okSet), p.Pos(pc.Pos()))

	// ---- MarkJobSuccess(u): every lower stage of the same segment found Shadowed becomes PartialPresent and is reported
	mj := p.Func(pkgStage, "Stages.MarkJobSuccess")
	r.Touch(core.FuncName(mj))
	um := mj.Params[1]
	okLoop, okShadow, okRet := false, false, false
	for _, l := range core.Loops(mj) {
		dir, ph := l.InductionDir()
		if ph == nil || dir != -1 {
			continue
		}
		// starts at u.Stage-1, runs while >= 0, no early exit
		startOK := false
		for i, pred := range ph.Block().Preds {
			if l.Body[pred] {
				continue
			}
			if bo, ok := core.SkipConv(ph.Edges[i]).(*ssa.BinOp); ok && bo.Op == token.SUB && isFieldOfParam(bo.X, um, "Stage") {
				if k, ok := bo.Y.(*ssa.Const); ok && k.Int64() == 1 {
					startOK = true
				}
			}
		}
		boundOK := false
		for _, e := range l.BoundExits {
			if ifi, ok := e.From.Instrs[len(e.From.Instrs)-1].(*ssa.If); ok {
				onT, onF, ok := core.CondRelation(ifi.Cond, func(v ssa.Value) bool { return v == ssa.Value(ph) }, isZeroConst)
				stay := onT
				if e.Idx == 0 {
					stay = onF
				}
				if ok && stay == core.OrdGT|core.OrdEQ {
					boundOK = true
				}
			}
		}
		okLoop = startOK && boundOK && len(l.EarlyExits) == 0
		for c, cs := range comparisons(mj) {
			if !l.Body[c.(*ssa.Call).Block()] {
				continue
			}
			lf := unitFields(c.(*ssa.Call).Call.Args[1])
			if lf != nil && len(lf["Segment"]) == 1 && len(lf["Stage"]) == 1 && isFieldOfParam(lf["Segment"][0], um, "Segment") && core.SkipConv(lf["Stage"][0]) == ssa.Value(ph) {
				// the re-labelling is reachable, within the iteration, only over the edge on which that state == Shadowed
				// (written `== Shadowed { … }` or `!= Shadowed { continue }`)
				if len(cs.consts) != 1 || cs.consts[0] != "UnitShadowed" {
					continue
				}
				shadowedVal := ""
				for _, k := range core.EnumConsts(p.Named(pkgStage, "UnitState")) {
					if k.Name() == "UnitShadowed" {
						shadowedVal = k.Val().ExactString()
					}
				}
				var eq []core.Edge
				core.Instrs(mj, func(in ssa.Instruction) {
					ifi, ok := in.(*ssa.If)
					if !ok {
						return
					}
					onT, onF, ok := core.CondRelation(ifi.Cond, func(v ssa.Value) bool { return v == c }, func(v ssa.Value) bool {
						k, ok := v.(*ssa.Const)
						return ok && k.Value != nil && k.Value.ExactString() == shadowedVal
					})
					if !ok {
						return
					}
					if onT == core.OrdEQ {
						eq = append(eq, core.Edge{From: ifi.Block(), Idx: 0})
					}
					if onF == core.OrdEQ {
						eq = append(eq, core.Edge{From: ifi.Block(), Idx: 1})
					}
				})
				trObj := p.FuncObj(pkgStage, "Stages.transition")
				okShadow = len(eq) > 0
				for _, t := range core.FindInstrsIn(mj, core.IsCallTo(trObj)) {
					if !l.Body[t.Block()] {
						continue
					}
					q := core.PathQuery{Fn: mj, CutEdge: func(e core.Edge) bool { return containsEdge(eq, e) }, CutInstr: func(x ssa.Instruction) bool { return x == l.Header.Instrs[0] }}
					if _, reach := q.CanReach(c.(*ssa.Call), func(x ssa.Instruction) bool { return x == t }); reach {
						okShadow = false
					}
				}
			}
		}
	}
	// the units reported are the ones just re-labelled (appended in the same block as the transition)
	tr := p.FuncObj(pkgStage, "Stages.transition")
	core.Instrs(mj, func(in ssa.Instruction) {
		c, ok := in.(*ssa.Call)
		if !ok {
			return
		}
		if b, ok := c.Call.Value.(*ssa.Builtin); ok && b.Name() == "append" {
			for _, x := range c.Block().Instrs {
				if core.CalleeOf(x) == tr {
					okRet = true
				}
			}
		}
	})
	r.Check(okLoop && okShadow && okRet, "C05.R4", "MarkJobSuccess/shadowed", "a finished job re-labels every lower stage of its segment that it shadowed (all stages below it, down to 0) as PartialPresent and reports each of them for merging", fmt.Sprintf("loop over all lower stages: %v; only Shadowed units: %v; reported with the transition: %v", okLoop, okShadow, okRet), p.Pos(mj.Pos()))
}

// checkWorkerPool (C05.R1): the worker slots follow Free → Working → Free (and InitialWait → Free at ramp-up): each
// write of WorkerStatus.State is reachable only over the edge on which the slot was found in the expected source state.
func checkWorkerPool(p *core.Prog, r *core.Report) {
	ws := p.Named(pkgWork, "WorkerStatus")
	stateF := core.FieldOf(ws, "State")
	wsT := p.Named(pkgWork, "WorkerState")
	val := map[string]string{}
	for _, c := range core.EnumConsts(wsT) {
		val[c.Name()] = c.Val().ExactString()
	}
	type tr struct{ fn, from, to string }
	for _, t := range []tr{{"WorkerPool.Borrow", "WorkerFree", "WorkerWorking"}, {"WorkerPool.Return", "WorkerWorking", "WorkerFree"}, {"WorkerPool.rampupWorkers", "WorkerInitialWait", "WorkerFree"}} {
		fn := p.Func(pkgWork, t.fn)
		r.Touch(core.FuncName(fn))
		var guard []core.Edge
		core.InstrsDeep(fn, func(in ssa.Instruction) {
			ifi, ok := in.(*ssa.If)
			if !ok {
				return
			}
			onT, onF, ok := core.CondRelation(ifi.Cond, func(v ssa.Value) bool { f, _ := core.LoadedField(v); return f == stateF }, func(v ssa.Value) bool {
				k, ok := v.(*ssa.Const)
				return ok && k.Value != nil && k.Value.ExactString() == val[t.from]
			})
			if !ok {
				return
			}
			if onT == core.OrdEQ {
				guard = append(guard, core.Edge{From: ifi.Block(), Idx: 0})
			}
			if onF == core.OrdEQ {
				guard = append(guard, core.Edge{From: ifi.Block(), Idx: 1})
			}
		})
		n, ok := 0, true
		for _, w := range core.FieldWritesIn(fn, stateF) {
			n++
			k, isK := w.Value.(*ssa.Const)
			if !isK || k.Value == nil || k.Value.ExactString() != val[t.to] {
				ok = false
				continue
			}
			q := core.PathQuery{Fn: fn, CutEdge: func(e core.Edge) bool { return containsEdge(guard, e) }}
			if _, reach := q.CanReach(nil, func(x ssa.Instruction) bool { return x == w.Instr }); reach || len(guard) == 0 {
				ok = false
			}
		}
		r.Check(n > 0 && ok, "C05.R1", t.fn+"/"+t.from+"→"+t.to, "the worker slot changes state only as "+t.from+" → "+t.to+", on the branch where it was found in the source state", "a write of WorkerStatus.State is not guarded by the source-state test or writes another state", p.Pos(fn.Pos()))
	}
	// writers of the slot state
	allowed := map[string]bool{"(*orchestrator/work.WorkerPool).Borrow": true, "(*orchestrator/work.WorkerPool).Return": true, "(*orchestrator/work.WorkerPool).rampupWorkers": true, "orchestrator/work.NewWorkerPool": true}
	var others []string
	for _, fn := range p.RepoFunctions() {
		if len(core.FieldWritesIn(fn, stateF)) > 0 && !allowed[core.FuncName(fn)] {
			others = append(others, core.FuncName(fn))
		}
	}
	r.Check(len(others) == 0, "C05.R1", "WorkerStatus.State/writers", "only the pool's constructor, Borrow, Return and the ramp-up write a worker slot's state", fmt.Sprintf("other writers: %v", others), "")
	// Borrow hands out the worker of the slot it marked; Return frees the slot of the worker it was given
	b := p.Func(pkgWork, "WorkerPool.Borrow")
	okB := false
	core.Instrs(b, func(in ssa.Instruction) {
		rt, ok := in.(*ssa.Return)
		if !ok || len(rt.Results) != 1 {
			return
		}
		f, base := core.LoadedField(rt.Results[0])
		if f == nil || f.Name() != "Worker" {
			return
		}
		for _, w := range core.FieldWritesIn(b, stateF) {
			if fa, ok := w.Instr.(*ssa.Store).Addr.(*ssa.FieldAddr); ok && fa.X == base && w.Instr.Block() == rt.Block() {
				okB = true
			}
		}
	})
	r.Check(okB, "C05.R1", "WorkerPool.Borrow/same-slot", "Borrow returns the worker of the very slot it marked Working", "returned worker and marked slot differ", p.Pos(b.Pos()))
	rf := p.Func(pkgWork, "WorkerPool.Return")
	okR := false
	core.InstrsDeep(rf, func(in ssa.Instruction) {
		ifi, ok := in.(*ssa.If)
		if !ok {
			return
		}
		c, neg := core.StripNot(ifi.Cond)
		bo, ok := c.(*ssa.BinOp)
		if !ok || (bo.Op != token.EQL && bo.Op != token.NEQ) {
			return
		}
		fx, _ := core.LoadedField(bo.X)
		fy, _ := core.LoadedField(bo.Y)
		isPrm := func(v ssa.Value) bool { return v == ssa.Value(rf.Params[1]) }
		if (fx != nil && fx.Name() == "Worker" && isPrm(bo.Y)) || (fy != nil && fy.Name() == "Worker" && isPrm(bo.X)) {
			idx := 0
			if (bo.Op == token.NEQ) != neg {
				idx = 1
			}
			for _, w := range core.FieldWritesIn(rf, stateF) {
				if _, only := core.OnlyViaEdge(rf, core.Edge{From: ifi.Block(), Idx: idx}, func(x ssa.Instruction) bool { return x == w.Instr }); only {
					okR = true
				}
			}
		}
	})
	r.Check(okR, "C05.R1", "WorkerPool.Return/same-worker", "Return frees the slot whose worker is the one given back", "the freed slot is not selected by comparing its worker with the argument", p.Pos(rf.Pos()))
}

// checkShadowOnlyPending (C05.R1): markShadowedUnits writes unit states directly (setState, no guarded transition); the
// only unit it may relabel Shadowed is one nobody is working on: Pending (or already Shadowed).  Relabelling a unit that
// is PartialPresent, Merging or Scheduled loses that fact: a merge in flight is started a second time once the shadowing
// job reports the unit, and a job in flight ends on an invalid transition.
func checkShadowOnlyPending(p *core.Prog, r *core.Report) {
	fn := p.Func(pkgStage, "Stages.markShadowedUnits")
	r.Touch(core.FuncName(fn))
	stT := p.Named(pkgStage, "UnitState")
	val := map[string]string{}
	for _, c := range core.EnumConsts(stT) {
		val[c.Name()] = c.Val().ExactString()
	}
	setState := p.FuncObj(pkgStage, "Stages.setState")
	getState := p.FuncObj(pkgStage, "Stages.getState")
	for _, c := range core.FindInstrs(fn, core.IsCallTo(setState)) {
		args := c.(ssa.CallInstruction).Common().Args
		k, ok := args[len(args)-1].(*ssa.Const)
		if !ok || k.Value == nil || k.Value.ExactString() != val["UnitShadowed"] {
			continue
		}
		unit := args[1]
		// edges on which the unit's own state is known to be Pending or Shadowed
		var okEdges []core.Edge
		core.InstrsDeep(fn, func(in ssa.Instruction) {
			ifi, isIf := in.(*ssa.If)
			if !isIf {
				return
			}
			for _, want := range []string{"UnitPending", "UnitShadowed"} {
				onT, onF, okc := core.CondRelation(ifi.Cond, func(v ssa.Value) bool {
					cc, ok := v.(*ssa.Call)
					return ok && core.CommonCallee(cc.Common()) == getState && (sameUnit(cc.Call.Args[1], unit) || sameExpr(cc.Call.Args[1], unit, 2))
				}, func(v ssa.Value) bool {
					kk, ok := v.(*ssa.Const)
					return ok && kk.Value != nil && kk.Value.ExactString() == val[want]
				})
				if !okc {
					continue
				}
				if onT == core.OrdEQ {
					okEdges = append(okEdges, core.Edge{From: ifi.Block(), Idx: 0})
				}
				if onF == core.OrdEQ {
					okEdges = append(okEdges, core.Edge{From: ifi.Block(), Idx: 1})
				}
			}
		})
		q := core.PathQuery{Fn: fn, CutEdge: func(e core.Edge) bool { return containsEdge(okEdges, e) }}
		_, reach := q.CanReach(nil, func(x ssa.Instruction) bool { return x == c })
		// ... and only behind a later stage that still has a job to run or running (Pending, Scheduled, Shadowed): a later
		// stage that is Merging / PartialPresent / Completed got its data without producing this unit's
		var nextOK []core.Edge
		nNext := 0
		core.InstrsDeep(fn, func(in ssa.Instruction) {
			ifi, isIf := in.(*ssa.If)
			if !isIf {
				return
			}
			for _, st := range []string{"UnitPending", "UnitScheduled", "UnitShadowed", "UnitMerging", "UnitPartialPresent", "UnitCompleted", "UnitNoOp"} {
				onT, onF, okc := core.CondRelation(ifi.Cond, func(v ssa.Value) bool {
					cc, ok := v.(*ssa.Call)
					return ok && core.CommonCallee(cc.Common()) == getState && !(sameUnit(cc.Call.Args[1], unit) || sameExpr(cc.Call.Args[1], unit, 2))
				}, func(v ssa.Value) bool {
					kk, ok := v.(*ssa.Const)
					return ok && kk.Value != nil && kk.Value.ExactString() == val[st]
				})
				if !okc {
					continue
				}
				nNext++
				allowed := st == "UnitPending" || st == "UnitScheduled" || st == "UnitShadowed"
				if onT == core.OrdEQ && allowed {
					nextOK = append(nextOK, core.Edge{From: ifi.Block(), Idx: 0})
				}
				if onF == core.OrdEQ && allowed {
					nextOK = append(nextOK, core.Edge{From: ifi.Block(), Idx: 1})
				}
			}
		})
		q2 := core.PathQuery{Fn: fn, CutEdge: func(e core.Edge) bool { return containsEdge(nextOK, e) }}
		_, reach2 := q2.CanReach(nil, func(x ssa.Instruction) bool { return x == c })
		r.Check(nNext > 0 && !reach2, "C05.R1", "markShadowedUnits/next-stage-has-a-job", "a unit is shadowed only behind a later stage of the segment that is Pending, Scheduled or Shadowed (a job will still produce this unit's stores); never behind one that is already Merging, PartialPresent or Completed", "setState(unit, Shadowed) is reachable over a next-stage state other than Pending/Scheduled/Shadowed", p.Pos(c.Pos()))
		r.Check(len(okEdges) > 0 && !reach, "C05.R1", "markShadowedUnits/only-pending", "a unit is relabelled Shadowed only when it was found Pending (or already Shadowed): a unit whose partial is present, being merged, or whose own job is running keeps its state", "setState(unit, Shadowed) is reachable for a unit in another state (only Completed and NoOp are excluded)", p.Pos(c.Pos()))
	}
}

// checkAllStoresCompleted (C05.R5): the termination test looks at every segment of every store stage, from the first
// to the last index of the store segmenter, and answers true only if each of them is Completed or NoOp.  (CmdTryMerge
// stops merging as soon as it answers true: a test that looks at the last segment only ends the merging while earlier
// partials are still waiting.)
func checkAllStoresCompleted(p *core.Prog, r *core.Report) {
	fn := p.Func(pkgStage, "Stages.AllStoresCompleted")
	r.Touch(core.FuncName(fn))
	stT := p.Named(pkgStage, "UnitState")
	nameOf := map[string]string{}
	for _, c := range core.EnumConsts(stT) {
		nameOf[c.Val().ExactString()] = c.Name()
	}
	getState := p.FuncObj(pkgStage, "Stages.getState")
	first, last := p.FuncObj(pkgBlock, "Segmenter.FirstIndex"), p.FuncObj(pkgBlock, "Segmenter.LastIndex")
	okRange, okStates, okStage := false, false, false
	for _, c := range core.FindInstrs(fn, core.IsCallTo(getState)) {
		u, ok := c.(ssa.CallInstruction).Common().Args[1].(*ssa.UnOp)
		if !ok {
			continue
		}
		al, ok := u.X.(*ssa.Alloc)
		if !ok {
			continue
		}
		lf := core.LiteralFields(al)
		if len(lf["Segment"]) != 1 || len(lf["Stage"]) != 1 {
			continue
		}
		seg, isPhi := core.SkipConv(lf["Segment"][0]).(*ssa.Phi)
		if !isPhi {
			continue
		}
		// segment loop: from FirstIndex() while <= LastIndex()
		for _, l := range core.Loops(fn) {
			if l.Header != seg.Block() {
				continue
			}
			startOK, boundOK := false, false
			for i, pred := range seg.Block().Preds {
				if !l.Body[pred] {
					if cc, ok := core.SkipConv(seg.Edges[i]).(*ssa.Call); ok && core.CommonCallee(cc.Common()) == first {
						startOK = true
					}
				}
			}
			for _, e := range l.BoundExits {
				if ifi, ok := e.From.Instrs[len(e.From.Instrs)-1].(*ssa.If); ok {
					onT, onF, ok := core.CondRelation(ifi.Cond, func(v ssa.Value) bool { return v == ssa.Value(seg) }, func(v ssa.Value) bool {
						cc, ok := core.SkipConv(v).(*ssa.Call)
						return ok && core.CommonCallee(cc.Common()) == last
					})
					stay := onT
					if e.Idx == 0 {
						stay = onF
					}
					if ok && stay == core.OrdLT|core.OrdEQ {
						boundOK = true
					}
				}
			}
			okRange = startOK && boundOK && len(l.EarlyExits) == 1 // the single early exit is `return false`
		}
		// the stage is the index of the loop over s.stages
		if ph, ok := core.SkipConv(lf["Stage"][0]).(*ssa.Phi); ok {
			for _, l := range core.Loops(fn) {
				if l.Header == ph.Block() {
					okStage = true
				}
			}
		} else if _, ok := core.SkipConv(lf["Stage"][0]).(*ssa.BinOp); ok {
			okStage = true // rangeindex+1 form
		}
		// states accepted
		var consts []string
		neq := 0
		for _, ref := range *c.(ssa.Value).Referrers() {
			if bo, ok := ref.(*ssa.BinOp); ok {
				if k, ok := bo.Y.(*ssa.Const); ok && k.Value != nil {
					consts = append(consts, nameOf[k.Value.ExactString()])
					if bo.Op == token.NEQ {
						neq++
					}
				}
			}
		}
		sort.Strings(consts)
		okStates = strings.Join(consts, ",") == "UnitCompleted,UnitNoOp" && neq == 2
	}
	r.Check(okRange && okStage && okStates, "C05.R5", "AllStoresCompleted/every-segment", "all stores are complete only if every unit from the first to the last store segment, of every store stage, is Completed or NoOp", fmt.Sprintf("segments FirstIndex()..LastIndex(): %v; per stage: %v; states {Completed, NoOp}: %v", okRange, okStage, okStates), p.Pos(fn.Pos()))
}
