package props

import (
	"fmt"
	"go/token"
	"strings"

	"golang.org/x/tools/go/ssa"

	"verif/sa/core"
)

// checkNoInPlaceMutation (C08.R4, C02.R4, C11.R1): byte slices obtained from the store — a value of kv, the answer of a
// Get*, the old/new value of a delta — are never written in place: not the destination of copy, not indexed-assigned,
// and not the base of an append (append writes into the spare capacity of its base; a value loaded from a snapshot is a
// sub-slice of the file buffer, whose spare capacity is the next entries).
func checkNoInPlaceMutation(p *core.Prog, r *core.Report, rule string) {
	kvF := p.Field(pkgStore, "baseStore", "kv")
	readers := map[string]bool{"GetAt": true, "GetLast": true, "GetFirst": true, "getAt": true, "getLast": true, "getFirst": true}
	var classify func(v ssa.Value, depth int) string
	classify = func(v ssa.Value, depth int) string {
		if depth == 0 {
			return "unknown"
		}
		switch x := v.(type) {
		case *ssa.Const:
			return "fresh"
		case *ssa.MakeSlice, *ssa.Alloc:
			return "fresh"
		case *ssa.Slice:
			return classify(x.X, depth-1)
		case *ssa.ChangeType:
			return classify(x.X, depth-1)
		case *ssa.Convert:
			// []byte(string) allocates
			return "fresh"
		case *ssa.Phi:
			out := "fresh"
			for _, e := range x.Edges {
				if c := classify(e, depth-1); c != "fresh" {
					out = c
				}
			}
			return out
		case *ssa.Extract:
			return classify(x.Tuple, depth-1)
		case *ssa.Lookup:
			if f, _ := core.LoadedField(x.X); f == kvF {
				return "store value (kv[…])"
			}
			return "unknown"
		case *ssa.UnOp:
			if x.Op == token.MUL {
				if f, _ := core.LoadedField(x); f != nil && (f.Name() == "OldValue" || f.Name() == "NewValue") {
					return "delta value (" + f.Name() + ")"
				}
				if al, ok := x.X.(*ssa.Alloc); ok {
					out := "fresh"
					for _, st := range core.StoresTo(al) {
						if c := classify(st.Val, depth-1); c != "fresh" {
							out = c
						}
					}
					return out
				}
			}
			return "unknown"
		case *ssa.Call:
			if b, ok := x.Call.Value.(*ssa.Builtin); ok && b.Name() == "append" {
				return classify(x.Call.Args[0], depth-1)
			}
			if cl := core.CommonCallee(x.Common()); cl != nil && readers[cl.Name()] {
				return "store read (" + cl.Name() + ")"
			}
			return "unknown"
		}
		return "unknown"
	}
	n := 0
	var bad []string
	for _, fn := range p.RepoFunctions() {
		if fn.Pkg == nil || fn.Pkg.Pkg.Path() != core.ModPath+"/"+pkgStore {
			continue
		}
		core.Instrs(fn, func(in ssa.Instruction) {
			var target ssa.Value
			what := ""
			switch x := in.(type) {
			case *ssa.Call:
				if b, ok := x.Call.Value.(*ssa.Builtin); ok {
					switch b.Name() {
					case "append":
						// only byte slices matter
						if !strings.Contains(x.Type().String(), "byte") {
							return
						}
						target, what = x.Call.Args[0], "append onto"
					case "copy":
						target, what = x.Call.Args[0], "copy into"
					}
				}
			case *ssa.Store:
				if ia, ok := x.Addr.(*ssa.IndexAddr); ok && strings.Contains(ia.X.Type().String(), "byte") {
					target, what = ia.X, "indexed write into"
				}
			}
			if target == nil {
				return
			}
			n++
			if c := classify(target, 6); strings.HasPrefix(c, "store") || strings.HasPrefix(c, "delta") {
				bad = append(bad, fmt.Sprintf("%s: %s a %s at %s", core.FuncName(fn), what, c, p.Pos(in.Pos())))
			}
		})
	}
	if n < 6 {
		core.Undecide("only %d byte-slice writes found in package storage/store", n)
	}
	r.Check(len(bad) == 0, rule, "storage/store/no-in-place-mutation", "a byte slice read from the store (kv value, Get* answer, delta value) is never the base of an append, the destination of a copy or the target of an indexed write: new values are built in fresh buffers", strings.Join(bad, "; "), "")
}

// checkMarshallersStateless (C10.R2, C18.R2): a store marshaller keeps nothing between calls — its methods write no
// receiver field and the bytes Marshal returns do not alias one.  Save hands the bytes to a writer that uploads them
// later (asynchronously in the squasher) while the store goes on being merged and saved again: a buffer reused by the
// next Marshal would be overwritten under the pending upload.
func checkMarshallersStateless(p *core.Prog, r *core.Report, rule string) {
	n := 0
	var bad []string
	for _, fn := range p.RepoFunctions() {
		if fn.Pkg == nil || fn.Pkg.Pkg.Path() != core.ModPath+"/"+pkgMarsh || fn.Signature.Recv() == nil || fn.Parent() != nil {
			continue
		}
		if fn.Name() != "Marshal" && fn.Name() != "Unmarshal" {
			continue
		}
		n++
		r.Touch(core.FuncName(fn))
		recv := fn.Params[0]
		core.Instrs(fn, func(in ssa.Instruction) {
			switch x := in.(type) {
			case *ssa.Store:
				if fa, ok := x.Addr.(*ssa.FieldAddr); ok && derivesFromParam(fa.X, recv) {
					bad = append(bad, fmt.Sprintf("%s writes its field %s at %s", core.FuncName(fn), core.FieldOfAddr(fa).Name(), p.Pos(in.Pos())))
				}
			case *ssa.Return:
				if fn.Name() != "Marshal" || len(x.Results) == 0 {
					return
				}
				// the returned bytes: walk slices/phis back to their root
				seen := map[ssa.Value]bool{}
				var walk func(v ssa.Value)
				walk = func(v ssa.Value) {
					if seen[v] {
						return
					}
					seen[v] = true
					switch y := v.(type) {
					case *ssa.Slice:
						walk(y.X)
					case *ssa.Phi:
						for _, e := range y.Edges {
							walk(e)
						}
					case *ssa.ChangeType:
						walk(y.X)
					case *ssa.UnOp:
						if f, base := core.LoadedField(y); f != nil && derivesFromParam(base, recv) {
							bad = append(bad, fmt.Sprintf("%s returns bytes held in its field %s at %s", core.FuncName(fn), f.Name(), p.Pos(in.Pos())))
						}
					}
				}
				walk(core.ResolveCell(x.Results[0]))
			}
		})
	}
	if n < 6 {
		core.Undecide("only %d Marshal/Unmarshal methods found in the marshaller package", n)
	}
	r.Check(len(bad) == 0, rule, "marshallers/stateless", "store marshallers keep no state between calls: no receiver field is written and the bytes returned by Marshal are not a view of one (a pending upload is never overwritten by the next Marshal)", strings.Join(bad, "; "), "")
}
