// Package selftest: seeded in-memory variants (packages.Config.Overlay) used to
// test each rule both ways in the thorough tier.
package selftest

// Result of the thorough-tier self validation.
type Result struct {
	Fired, Silent, Skipped int
	Failed                 []string
	Lines                  []string
}

// Run evaluates every variant registered for the property.
func Run(repo, prop string, seed int) Result { return Result{} }

// RunVariantChild is the child-process entry: load with overlay, run rules, print statuses.
func RunVariantChild(repo, prop, variant string) int { return 0 }
