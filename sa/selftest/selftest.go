// Package selftest: seeded in-memory variants (packages.Config.Overlay) used to
// test each rule set both ways in the thorough tier.  /repo is never copied or
// modified: a variant is an overlay of one or more files whose content was
// transformed in memory (fragment replacement, or a stored unified diff from
// /verif/seeded applied hunk by hunk on the current file content).
package selftest

import (
	"encoding/json"
	"fmt"
	"os"
	"os/exec"
	"path/filepath"
	"sort"
	"strings"
	"sync"

	"verif/sa/core"
	"verif/sa/props"
)

// Variant is one in-memory transformation of the repository.
type Variant struct {
	Name   string
	Prop   string
	Breaks bool   // true: some rule of ExpectRule must report a violation; false: everything must stay silent
	Expect string // rule prefix expected to fire (e.g. "C03.R3"); empty = any rule of the property
	Edits  []Edit // fragment replacements
	Patch  string // path of a unified diff (alternative to Edits)
	Why    string
}

// Edit replaces the first occurrence of Old by New in File (relative to the repository).
type Edit struct{ File, Old, New string }

// Result of the thorough-tier self validation.
type Result struct {
	Fired, Silent, Skipped int
	Failed                 []string
	Lines                  []string
}

type childOut struct {
	Applied     bool     `json:"applied"`
	SkipReason  string   `json:"skip_reason,omitempty"`
	Violated    []string `json:"violated"`
	Undecided   []string `json:"undecided"`
	Obligations int      `json:"obligations"`
	Error       string   `json:"error,omitempty"`
}

// All returns every variant of a property: the hand-written table plus the seeded changes stored under /verif/seeded.
func All(verif, prop string) []Variant {
	var out []Variant
	for _, v := range table {
		if v.Prop == prop {
			out = append(out, v)
		}
	}
	// seeded changes
	dirs, _ := filepath.Glob(filepath.Join(verif, "seeded", "*"))
	sort.Strings(dirs)
	for _, d := range dirs {
		b, err := os.ReadFile(filepath.Join(d, "meta.json"))
		if err != nil {
			continue
		}
		var m struct {
			Property   string `json:"property"`
			Summary    string `json:"summary"`
			Superseded string `json:"superseded"`
			Missed     string `json:"expect_missed"`
		}
		if json.Unmarshal(b, &m) != nil || m.Property != prop {
			continue
		}
		if m.Superseded != "" {
			continue // the code the change was made in was rewritten by a later repair; see meta.json
		}
		if m.Missed != "" {
			continue // a confirmed change that no sound structural rule reports (reason in meta.json and DESIGN §8)
		}
		out = append(out, Variant{Name: "seeded/" + filepath.Base(d), Prop: prop, Breaks: true, Patch: filepath.Join(d, "patch.diff"), Why: "seeded change confirmed to break the property (sub-agent + independent confirmation)"})
	}
	// behaviour-preserving refactorings written by sub-agents (DESIGN §8.1): the property's own, plus those written
	// around another property that once raised an alarm under this one (tools/preserving*/extra.json)
	seen := map[string]bool{}
	addPreserving := func(path string) {
		if seen[path] {
			return
		}
		seen[path] = true
		rel, _ := filepath.Rel(filepath.Join(verif, "tools"), path)
		out = append(out, Variant{Name: "preserving/" + strings.TrimSuffix(rel, ".diff"), Prop: prop, Breaks: false, Patch: path, Why: "behaviour-preserving refactoring by a sub-agent (built and tested in its worktree)"})
	}
	rounds, _ := filepath.Glob(filepath.Join(verif, "tools", "preserving*"))
	sort.Strings(rounds)
	for _, rd := range rounds {
		// patches on which a rule is known to raise a false alarm still (DESIGN §8.1 lists them with the rule): they are
		// not variants of the thorough tier — listing one here is an admission, not a fix
		residual := map[string]bool{}
		if b, err := os.ReadFile(filepath.Join(rd, "residual.json")); err == nil {
			var rs map[string]interface{}
			if json.Unmarshal(b, &rs) == nil {
				for k := range rs {
					residual[filepath.Join(rd, k+".diff")] = true
				}
			}
		}
		for k := range residual {
			seen[k] = true
		}
		own, _ := filepath.Glob(filepath.Join(rd, prop, "p*.diff"))
		sort.Strings(own)
		for _, pf := range own {
			addPreserving(pf)
		}
		if b, err := os.ReadFile(filepath.Join(rd, "extra.json")); err == nil {
			var extra map[string][]string
			if json.Unmarshal(b, &extra) == nil {
				for _, e := range extra[prop] {
					addPreserving(filepath.Join(rd, e+".diff"))
				}
			}
		}
	}
	return out
}

func find(verif, prop, name string) (Variant, bool) {
	// development aid: `-variant patch:/abs/path.diff` evaluates any stored diff as an in-memory overlay
	if strings.HasPrefix(name, "patch:") {
		return Variant{Name: name, Prop: prop, Patch: strings.TrimPrefix(name, "patch:")}, true
	}
	for _, v := range All(verif, prop) {
		if v.Name == name {
			return v, true
		}
	}
	return Variant{}, false
}

// overlayFor builds the overlay of a variant; ok=false when an anchor fragment is gone.
func overlayFor(repo string, v Variant) (map[string][]byte, string) {
	ov := map[string][]byte{}
	get := func(rel string) (string, error) {
		abs := filepath.Join(repo, rel)
		if b, ok := ov[abs]; ok {
			return string(b), nil
		}
		b, err := os.ReadFile(abs)
		return string(b), err
	}
	for _, e := range v.Edits {
		s, err := get(e.File)
		if err != nil {
			return nil, "file missing: " + e.File
		}
		if !strings.Contains(s, e.Old) {
			return nil, "fragment not found in " + e.File
		}
		ov[filepath.Join(repo, e.File)] = []byte(strings.Replace(s, e.Old, e.New, 1))
	}
	if v.Patch != "" {
		b, err := os.ReadFile(v.Patch)
		if err != nil {
			return nil, "patch missing"
		}
		files, err := parseUnifiedDiff(string(b))
		if err != nil {
			return nil, "patch unreadable: " + err.Error()
		}
		for _, fp := range files {
			if fp.New {
				// a file the change adds to an existing package: its content is the added lines
				var nl []string
				for _, h := range fp.Hunks {
					nl = append(nl, h.newLines...)
				}
				ov[filepath.Join(repo, fp.File)] = []byte(strings.Join(nl, "\n") + "\n")
				continue
			}
			s, err := get(fp.File)
			if err != nil {
				return nil, "file missing: " + fp.File
			}
			ns, ok := applyHunks(s, fp.Hunks)
			if !ok {
				return nil, "patch does not apply to the current " + fp.File
			}
			ov[filepath.Join(repo, fp.File)] = []byte(ns)
		}
	}
	return ov, ""
}

// RunVariantChild is the child-process entry: load with overlay, run rules, print statuses as JSON.
func RunVariantChild(repo, prop, variant string) int {
	verif := os.Getenv("VERIF_DIR")
	if verif == "" {
		verif = "/verif"
	}
	out := childOut{}
	emit := func() int {
		b, _ := json.Marshal(out)
		fmt.Println(string(b))
		return 0
	}
	v, ok := find(verif, prop, variant)
	if !ok {
		out.Error = "unknown variant"
		return emit()
	}
	ov, skip := overlayFor(repo, v)
	if skip != "" {
		out.SkipReason = skip
		return emit()
	}
	out.Applied = true
	p, err := core.Load(core.LoadOptions{Dir: repo, Overlay: ov})
	if err != nil {
		out.Error = "variant does not load/type-check: " + err.Error()
		return emit()
	}
	r := core.NewReport(prop)
	props.RunFull(prop, p, r)
	if known, err := core.LoadKnown(filepath.Join(verif, "known_findings.json")); err == nil {
		r.ApplyKnown(known, false)
	}
	out.Obligations = len(r.Obligations)
	for _, o := range r.Obligations {
		switch o.Status {
		case core.Violated:
			out.Violated = append(out.Violated, o.Rule+" "+o.Construct)
			if os.Getenv("SSCHECK_DEBUG") != "" {
				fmt.Fprintf(os.Stderr, "violated %s %s: %s %v\n", o.Rule, o.Construct, o.Detail, o.Sites)
			}
		case core.Undec:
			out.Undecided = append(out.Undecided, o.Rule+" "+o.Construct+": "+o.Detail)
		}
	}
	return emit()
}

// Run evaluates every variant registered for the property (≤ 4 child processes at a time).
func Run(repo, prop string, seed int) Result {
	verif := os.Getenv("VERIF_DIR")
	if verif == "" {
		verif = "/verif"
	}
	vs := All(verif, prop)
	// the seed only rotates the order in which variants are evaluated
	if len(vs) > 0 && seed != 0 {
		k := seed % len(vs)
		if k < 0 {
			k = -k
		}
		vs = append(vs[k:], vs[:k]...)
	}
	res := Result{}
	var mu sync.Mutex
	sem := make(chan struct{}, 4)
	var wg sync.WaitGroup
	self, _ := os.Executable()
	for _, v := range vs {
		v := v
		wg.Add(1)
		sem <- struct{}{}
		go func() {
			defer wg.Done()
			defer func() { <-sem }()
			cmd := exec.Command(self, "-repo", repo, "-variant", v.Name, prop)
			cmd.Env = append(os.Environ(), "VERIF_DIR="+verif)
			b, err := cmd.Output()
			var co childOut
			line := ""
			if err != nil {
				line = fmt.Sprintf("%s: FAILED child process: %v", v.Name, err)
			} else {
				// last line of stdout is the JSON
				ls := strings.Split(strings.TrimSpace(string(b)), "\n")
				if jerr := json.Unmarshal([]byte(ls[len(ls)-1]), &co); jerr != nil {
					line = fmt.Sprintf("%s: FAILED unreadable child output", v.Name)
				}
			}
			mu.Lock()
			defer mu.Unlock()
			if line != "" {
				res.Failed = append(res.Failed, v.Name)
				res.Lines = append(res.Lines, line)
				return
			}
			switch {
			case co.SkipReason != "":
				res.Skipped++
				res.Lines = append(res.Lines, fmt.Sprintf("%s: skipped (%s)", v.Name, co.SkipReason))
			case co.Error != "":
				res.Skipped++
				res.Lines = append(res.Lines, fmt.Sprintf("%s: skipped (%s)", v.Name, co.Error))
			case v.Breaks:
				hit := ""
				for _, x := range co.Violated {
					if v.Expect == "" || strings.HasPrefix(x, v.Expect) {
						hit = x
						break
					}
				}
				if hit != "" {
					res.Fired++
					res.Lines = append(res.Lines, fmt.Sprintf("%s: fired as required (%s; %d violations)", v.Name, hit, len(co.Violated)))
				} else {
					res.Failed = append(res.Failed, v.Name)
					res.Lines = append(res.Lines, fmt.Sprintf("%s: FAILED — breaking variant not reported (expected %q; violated=%v undecided=%v)", v.Name, v.Expect, co.Violated, co.Undecided))
				}
			default:
				if len(co.Violated) == 0 && len(co.Undecided) == 0 {
					res.Silent++
					res.Lines = append(res.Lines, fmt.Sprintf("%s: silent as required (%d obligations)", v.Name, co.Obligations))
				} else {
					res.Failed = append(res.Failed, v.Name)
					res.Lines = append(res.Lines, fmt.Sprintf("%s: FAILED — behaviour-preserving variant raised an alarm (violated=%v undecided=%v)", v.Name, co.Violated, co.Undecided))
				}
			}
		}()
	}
	wg.Wait()
	sort.Strings(res.Lines)
	sort.Strings(res.Failed)
	return res
}
