package selftest

// table: hand-written variants.  Breaking variants (Breaks: true) are small
// edits that violate the property while still compiling; each must be reported
// by the named rule.  Behaviour-preserving variants (Breaks: false) are
// refactors that keep the behaviour; each must leave the whole rule set silent.
// A variant whose fragment is no longer found is reported as skipped.
var table = []Variant{
	// ---------------------------------------------------------------- C01
	{Name: "C01/unsorted-deletePrefix", Prop: "C01", Breaks: true, Expect: "C01.R1", Edits: []Edit{{"storage/store/value_delete.go",
		"	sort.Slice(deltas, func(i, j int) bool {\n		return deltas[i].Key < deltas[j].Key\n	})\n", "	_ = sort.Strings\n"}}, Why: "delta order of a delete_prefix follows map iteration"},
	{Name: "C01/cache-by-name", Prop: "C01", Breaks: true, Expect: "C01.R2", Edits: []Edit{{"storage/store/configmap.go", "moduleHashes.Get(storeModule.Name)", "storeModule.Name"}}, Why: "store snapshots keyed by module name"},
	{Name: "C01/skip-ignores-clock", Prop: "C01", Breaks: true, Expect: "C01.R3", Edits: []Edit{{"service/tier2.go",
		"	return valueInputs == 1 && clockInputs == 1\n", "	return false && valueInputs == 1 && clockInputs == 1 && wasm.ClockType == \"\"\n"}, {"service/tier2.go",
		"			if in.Source.Type == wasm.ClockType {\n				clockInputs++\n			}\n", "			clockInputs++\n"}}, Why: "clock-only modules no longer force the block stream"},
	{Name: "C01/unsorted-items", Prop: "C01", Breaks: true, Expect: "C01.R1", Edits: []Edit{{"storage/execout/file.go",
		"	sort.Slice(out, func(i, j int) bool {\n		return out[i].BlockNum < out[j].BlockNum\n	})\n", "	_ = sort.Strings\n"}}, Why: "cached items sent in map order"},
	{Name: "C01/preserve-rename-local", Prop: "C01", Breaks: false, Edits: []Edit{{"service/tier2.go", "	valueInputs := 0 // inputs handed over as values: sources, maps and stores in deltas mode\n	clockInputs := 0\n",
		"	valueInputs, clockInputs := 0, 0\n"}}, Why: "declaration style"},

	// ---------------------------------------------------------------- C02
	{Name: "C02/missing-flush-case", Prop: "C02", Breaks: true, Expect: "C02.R1", Edits: []Edit{{"storage/store/base_store.go",
		"		case pbssinternal.Operation_SET_MIN_INT64:\n			b.setMinInt64(op.Ord, op.Key, valueToInt64(op.Value))\n", ""}}, Why: "operation kind silently dropped"},
	{Name: "C02/wrong-encoder", Prop: "C02", Breaks: true, Expect: "C02.R1", Edits: []Edit{{"storage/store/store_sum.go",
		"		Type:  pbssinternal.Operation_SUM_INT64,\n		Ord:   ord,\n		Key:   key,\n		Value: int64ToBytes(value),", "		Type:  pbssinternal.Operation_SUM_INT64,\n		Ord:   ord,\n		Key:   key,\n		Value: float64ToBytes(float64(value)),"}}, Why: "recorder/decoder codec mismatch"},
	{Name: "C02/max-flipped-merge", Prop: "C02", Breaks: true, Expect: "C02.R7", Edits: []Edit{{"storage/store/merge.go",
		"			max := func(a, b int64) int64 {\n				if a >= b {", "			max := func(a, b int64) int64 {\n				if a <= b {"}}, Why: "merge keeps the smaller value under MAX"},
	{Name: "C02/max-flipped-sequential", Prop: "C02", Breaks: true, Expect: "C02.R1", Edits: []Edit{{"storage/store/store_max.go",
		"		if prev != nil && value.Cmp(prev) > 0 {", "		if prev != nil && value.Cmp(prev) < 0 {"}}, Why: "sequential handler keeps the smaller value under MAX"},
	{Name: "C02/deletes-after-keys", Prop: "C02", Breaks: true, Expect: "C02.R3", Edits: []Edit{{"storage/store/merge.go",
		"	for _, prefix := range kvPartialStore.DeletedPrefixes {\n		b.DeletePrefix(kvPartialStore.lastOrdinal, prefix)\n	}\n	if err := b.Flush(); err != nil {\n		return err\n	}\n", ""}, {"storage/store/merge.go",
		"	b.Reset() // Merge should never keep deltas or ordinals\n", "	for _, prefix := range kvPartialStore.DeletedPrefixes {\n		b.DeletePrefix(kvPartialStore.lastOrdinal, prefix)\n	}\n	if err := b.Flush(); err != nil {\n		return err\n	}\n	b.Reset() // Merge should never keep deltas or ordinals\n"}}, Why: "prefixes deleted after the segment's keys were merged"},
	{Name: "C02/no-ApplyOps-override", Prop: "C02", Breaks: true, Expect: "C02.R5", Edits: []Edit{{"storage/store/partial_kv.go", "func (p *PartialKV) ApplyOps(in []byte) error {", "func (p *PartialKV) applyOpsUnused(in []byte) error {"}}, Why: "replayed delete prefixes not recorded"},
	{Name: "C02/load-forgets-prefixes", Prop: "C02", Breaks: true, Expect: "C02.R6", Edits: []Edit{{"storage/store/partial_kv.go", "	p.DeletedPrefixes = storeData.DeletePrefixes\n", ""}}, Why: "deleted prefixes lost on reload"},
	{Name: "C02/setifnotexists-overwrites", Prop: "C02", Breaks: true, Expect: "C02.R4", Edits: []Edit{{"storage/store/merge.go",
		"			if _, found := b.kv[k]; !found {\n				b.setNewKV(k, v)\n			}", "			b.setKV(k, v)"}}, Why: "later segment wins under set_if_not_exists"},
	{Name: "C02/append-reversed", Prop: "C02", Breaks: true, Expect: "C02.R4", Edits: []Edit{{"storage/store/merge.go",
		"				copy(nextVal[0:], prevVal)\n				copy(nextVal[len(prevVal):], v)", "				copy(nextVal[0:], v)\n				copy(nextVal[len(v):], prevVal)"}}, Why: "concatenation order reversed"},
	{Name: "C02/intrinsic-wrong-recorder", Prop: "C02", Breaks: true, Expect: "C02.R2", Edits: []Edit{{"wasm/call.go", "	c.outputStore.SetMinInt64(ord, key, value)", "	c.outputStore.SetMaxInt64(ord, key, value)"}}, Why: "set_min intrinsic records a max operation"},
	{Name: "C02/preserve-covered-prefix-skip", Prop: "C02", Breaks: false, Edits: []Edit{{"storage/store/partial_kv.go",
		"	if !p.seen[prefix] {\n		p.DeletedPrefixes = append(p.DeletedPrefixes, prefix)\n		p.seen[prefix] = true\n	}\n",
		"	if p.seen[prefix] {\n		return\n	}\n	p.seen[prefix] = true\n	for _, tracked := range p.DeletedPrefixes {\n		if strings.HasPrefix(prefix, tracked) {\n			return\n		}\n	}\n	p.DeletedPrefixes = append(p.DeletedPrefixes, prefix)\n"},
		{"storage/store/partial_kv.go", "	\"math/big\"\n", "	\"math/big\"\n	\"strings\"\n"}}, Why: "skipping a prefix already covered by a recorded one is behaviour-preserving"},

	// ---------------------------------------------------------------- C03
	{Name: "C03/return-in-reverse-loop", Prop: "C03", Breaks: true, Expect: "C03.R1", Edits: []Edit{{"storage/store/delta.go",
		"			b.totalSizeBytes += oldSize\n			b.totalSizeBytes += keySize\n		}\n	}\n}", "			b.totalSizeBytes += oldSize\n			b.totalSizeBytes += keySize\n			return\n		}\n	}\n}"}}, Why: "the historical defect D1"},
	{Name: "C03/reverse-ascending", Prop: "C03", Breaks: true, Expect: "C03.R1", Edits: []Edit{{"storage/store/delta.go", "	for i := len(deltas) - 1; i >= 0; i-- {", "	for i := 0; i < len(deltas); i++ {"}}, Why: "deltas reverted first to last"},
	{Name: "C03/reverse-wrong-value", Prop: "C03", Breaks: true, Expect: "C03.R2", Edits: []Edit{{"storage/store/delta.go",
		"		case pbsubstreams.StoreDelta_UPDATE:\n			b.kv[delta.Key] = delta.OldValue", "		case pbsubstreams.StoreDelta_UPDATE:\n			b.kv[delta.Key] = delta.NewValue"}}, Why: "undo of an update restores the new value"},
	{Name: "C03/reverse-size-sign", Prop: "C03", Breaks: true, Expect: "C03.R2", Edits: []Edit{{"storage/store/delta.go",
		"			delete(b.kv, delta.Key)\n			b.totalSizeBytes -= newSize\n			b.totalSizeBytes -= keySize", "			delete(b.kv, delta.Key)\n			b.totalSizeBytes -= newSize\n			b.totalSizeBytes += keySize"}}, Why: "size drift on undo of a create"},
	{Name: "C03/final-keeps-outputs", Prop: "C03", Breaks: true, Expect: "C03.R3", Edits: []Edit{{"pipeline/process_block.go",
		"		return fmt.Errorf(\"exec output cache: handle final: %w\", err)\n	}\n	p.forkHandler.removeReversibleOutput(clock.Id)\n", "		return fmt.Errorf(\"exec output cache: handle final: %w\", err)\n	}\n"}}, Why: "reversible outputs of final blocks never forgotten"},
	{Name: "C03/undo-signal-from-clock", Prop: "C03", Breaks: true, Expect: "C03.R5", Edits: []Edit{{"pipeline/process_block.go", "	targetClock := blockRefToPB(reorgJunctionBlock)", "	targetClock := blockRefToPB(bstream.NewBlockRef(clock.Id, clock.Number))"}}, Why: "undo signal designates the undone block"},
	{Name: "C03/preserve-rename", Prop: "C03", Breaks: false, Edits: []Edit{{"storage/store/delta.go",
		"	for i := len(deltas) - 1; i >= 0; i-- {\n		delta := deltas[i]\n", "	for idx := len(deltas) - 1; idx >= 0; idx-- {\n		delta := deltas[idx]\n"}}, Why: "renamed loop variable"},
	{Name: "C03/preserve-inline-remove", Prop: "C03", Breaks: false, Edits: []Edit{{"pipeline/process_block.go",
		"	p.execOutputCache.HandleStalled(clock)\n	p.forkHandler.removeReversibleOutput(clock.Id)\n", "	p.execOutputCache.HandleStalled(clock)\n	p.forkHandler.mu.Lock()\n	delete(p.forkHandler.reversibleOutputs, clock.Id)\n	p.forkHandler.mu.Unlock()\n"}}, Why: "helper inlined: the effect (delete on reversibleOutputs) is unchanged"},

	// ---------------------------------------------------------------- C04
	{Name: "C04/start-clip-off-by-one", Prop: "C04", Breaks: true, Expect: "C04.R1", Edits: []Edit{{"orchestrator/execout/execout_walker.go", "		if item.BlockNum < r.StartBlock {", "		if item.BlockNum <= r.StartBlock {"}}, Why: "start block itself skipped"},
	{Name: "C04/end-clip-off-by-one", Prop: "C04", Breaks: true, Expect: "C04.R1", Edits: []Edit{{"orchestrator/execout/execout_walker.go", "		if item.BlockNum >= r.ExclusiveEndBlock {\n			return nil\n		}\n\n		blockScopedData", "		if item.BlockNum > r.ExclusiveEndBlock {\n			return nil\n		}\n\n		blockScopedData"}}, Why: "end block delivered"},
	{Name: "C04/empty-not-delivered", Prop: "C04", Breaks: true, Expect: "C04.R4", Edits: []Edit{{"pipeline/process_block.go",
		"		if err = returnModuleDataOutputs(clock, cursor, mapModuleOutput, p.extraMapModuleOutputs, p.extraStoreModuleOutputs, p.respFunc, logger); err != nil {\n			return fmt.Errorf(\"failed to return module data output: %w\", err)\n		}",
		"		if p.mapModuleOutput != nil {\n			if err = returnModuleDataOutputs(clock, cursor, mapModuleOutput, p.extraMapModuleOutputs, p.extraStoreModuleOutputs, p.respFunc, logger); err != nil {\n				return fmt.Errorf(\"failed to return module data output: %w\", err)\n			}\n		}"}}, Why: "blocks with empty output dropped in the linear phase"},
	{Name: "C04/final-cursor-same-block", Prop: "C04", Breaks: true, Expect: "C04.R6", Edits: []Edit{{"pipeline/resolve.go", "		nextBlock := cursor.Block.Num() + 1", "		nextBlock := cursor.Block.Num()"}}, Why: "resumption re-delivers the cursor's block"},
	{Name: "C04/descending-items", Prop: "C04", Breaks: true, Expect: "C04.R1", Edits: []Edit{{"storage/execout/file.go", "		return out[i].BlockNum < out[j].BlockNum", "		return out[i].BlockNum > out[j].BlockNum"}}, Why: "cached items sent in descending order"},
	{Name: "C04/final-height-from-block", Prop: "C04", Breaks: true, Expect: "C04.R5", Edits: []Edit{{"pipeline/pipeline.go", "		FinalBlockHeight:  cursor.LIB.Num(),", "		FinalBlockHeight:  cursor.Block.Num(),"}}, Why: "final height is not the LIB"},
	{Name: "C04/stop-test-after-exec", Prop: "C04", Breaks: true, Expect: "C04.R2", Edits: []Edit{{"pipeline/process_block.go", "	if isBlockOverStopBlock(clock.Number, reqDetails.StopBlockNum) {\n		return io.EOF\n	}\n", ""},
		{"pipeline/process_block.go", "	p.stores.resetStores()\n	logger.Debug(\"block processed\"", "	if isBlockOverStopBlock(clock.Number, reqDetails.StopBlockNum) {\n		return io.EOF\n	}\n	p.stores.resetStores()\n	logger.Debug(\"block processed\""}}, Why: "stop block executed and sent before the stop test"},
	{Name: "C04/preserve-negated-guard", Prop: "C04", Breaks: false, Edits: []Edit{{"orchestrator/execout/execout_walker.go", "		if item.BlockNum < r.StartBlock {", "		if !(item.BlockNum >= r.StartBlock) {"}}, Why: "same comparison written negated"},

	// ---------------------------------------------------------------- C05
	{Name: "C05/merge-from-pending", Prop: "C05", Breaks: true, Expect: "C05.R1", Edits: []Edit{{"orchestrator/stage/transitions.go", "		UnitPartialPresent, // was next in line for Squasher to process", "		UnitPartialPresent, // was next in line for Squasher to process\n		UnitPending,"}}, Why: "undocumented transition"},
	{Name: "C05/state-written-from-command", Prop: "C05", Breaks: true, Expect: "C05.R2", Edits: []Edit{{"orchestrator/stage/stages.go", "		if err := s.multiSquash(stage, mergeUnit); err != nil {", "		s.markSegmentCompleted(mergeUnit)\n		if err := s.multiSquash(stage, mergeUnit); err != nil {"}}, Why: "unit state written from the asynchronous merge command"},
	{Name: "C05/no-dependency-test", Prop: "C05", Breaks: true, Expect: "C05.R3", Edits: []Edit{{"orchestrator/stage/stages.go", "			if !s.dependenciesCompleted(unit) {\n				continue\n			}", "			if !s.dependenciesCompleted(unit) {\n			}"}}, Why: "jobs scheduled before their dependencies"},
	{Name: "C05/job-failure-ignored", Prop: "C05", Breaks: true, Expect: "C05.R5", Edits: []Edit{{"orchestrator/scheduler/scheduler.go", "	case work.MsgJobFailed:\n		cmds = append(cmds, loop.Quit(msg.Error))", "	case work.MsgJobFailed:\n		return nil"}}, Why: "failed job does not end the request"},
	{Name: "C05/merge-without-partial", Prop: "C05", Breaks: true, Expect: "C05.R4", Edits: []Edit{{"orchestrator/stage/stages.go", "	if s.getState(mergeUnit) != UnitPartialPresent {\n		return CmdMergeNotReady(mergeUnit, \"next unit's partial isn't present\")\n	}\n", ""}}, Why: "merge started without a partial"},
	{Name: "C05/worker-not-returned", Prop: "C05", Breaks: true, Expect: "C05.R5", Edits: []Edit{{"orchestrator/scheduler/scheduler.go", "		s.WorkerPool.Return(msg.Worker)\n", ""}}, Why: "worker leak"},
	{Name: "C05/preserve-local-unit", Prop: "C05", Breaks: false, Edits: []Edit{{"orchestrator/stage/stages.go", "	s.MarkSegmentMerging(mergeUnit)\n\n	return func() loop.Msg {", "	s.MarkSegmentMerging(mergeUnit)\n	s.logger.Debug(\"merging\")\n\n	return func() loop.Msg {"}}, Why: "added log call"},

	// ---------------------------------------------------------------- C06
	{Name: "C06/no-entrypoint", Prop: "C06", Breaks: true, Expect: "C06.R1", Edits: []Edit{{"manifest/signature.go", "	buf.WriteString(\"entrypoint\")\n	buf.WriteString(module.BinaryEntrypoint)", "	buf.WriteString(\"entrypoint\")"}}, Why: "two entrypoints of one binary share caches"},
	{Name: "C06/name-hashed", Prop: "C06", Breaks: true, Expect: "C06.R1", Edits: []Edit{{"manifest/signature.go", "	buf.WriteString(\"entrypoint\")", "	buf.WriteString(module.Name)\n	buf.WriteString(\"entrypoint\")"}}, Why: "renaming a module invalidates its caches"},
	{Name: "C06/prefix-rewrites-entrypoint", Prop: "C06", Breaks: true, Expect: "C06.R3", Edits: []Edit{{"manifest/reader.go", "		mod.Name = withPrefix(mod.Name, prefix)", "		mod.Name = withPrefix(mod.Name, prefix)\n		mod.BinaryEntrypoint = withPrefix(mod.BinaryEntrypoint, prefix)"}}, Why: "import under an alias changes identifiers"},
	{Name: "C06/index-keyed-by-name", Prop: "C06", Breaks: true, Expect: "C06.R5", Edits: []Edit{{"storage/index/writer.go", "ModuleHashes.Get(module.Name)", "module.Name"}}, Why: "index files keyed by module name"},
	{Name: "C06/preserve-temp", Prop: "C06", Breaks: false, Edits: []Edit{{"manifest/signature.go", "	buf.WriteString(\"entrypoint\")\n	buf.WriteString(module.BinaryEntrypoint)", "	entry := module.BinaryEntrypoint\n	buf.WriteString(\"entrypoint\")\n	buf.WriteString(entry)"}}, Why: "value hoisted into a temporary"},

	// ---------------------------------------------------------------- C07
	{Name: "C07/unreadable-output-not-required", Prop: "C07", Breaks: true, Expect: "C07.R1", Edits: []Edit{{"service/tier2.go",
		"			if readErr != nil {\n				requiredModules[name] = usedModules[name]\n				break\n			}\n			existingExecOuts[name] = file\n\n			if runningLastStage", "			if readErr != nil {\n				break\n			}\n			existingExecOuts[name] = file\n\n			if runningLastStage"}}, Why: "a missing cached output is taken for done"},
	{Name: "C07/partial-marked-without-all-modules", Prop: "C07", Breaks: true, Expect: "C07.R2", Edits: []Edit{{"orchestrator/stage/fetchstorage.go",
		"				if allDone := markFound(partials, unit, mod.name, moduleCount(unit)); allDone {\n					s.MarkSegmentPartialPresent(unit)\n				}", "				markFound(partials, unit, mod.name, moduleCount(unit))\n				s.MarkSegmentPartialPresent(unit)"}}, Why: "unit marked although some modules lack the file"},
	{Name: "C07/loaded-on-error", Prop: "C07", Breaks: true, Expect: "C07.R3", Edits: []Edit{{"storage/execout/file.go", "	if err == nil {\n		c.loaded = true\n	}", "	c.loaded = true"}}, Why: "a failed load is remembered as loaded"},
	{Name: "C07/store-written-but-not-required", Prop: "C07", Breaks: true, Expect: "C07.R1", Edits: []Edit{{"service/tier2.go",
		"				if !partialStoreExists {\n					storesToWrite[name] = struct{}{}\n					requiredModules[name] = usedModules[name]\n				}", "				if !partialStoreExists {\n					storesToWrite[name] = struct{}{}\n				}"}}, Why: "a store without snapshot is not executed"},

	// ---------------------------------------------------------------- C08
	{Name: "C08/hasat-from-first", Prop: "C08", Breaks: true, Expect: "C08.R1", Edits: []Edit{{"storage/store/value_get.go", "func (b *baseStore) HasAt(ord uint64, key string) bool {\n	_, found := b.getLast(key)", "func (b *baseStore) HasAt(ord uint64, key string) bool {\n	_, found := b.GetFirst(key)"}}, Why: "the historical defect D3"},
	{Name: "C08/hasfirst-create-true", Prop: "C08", Breaks: true, Expect: "C08.R2", Edits: []Edit{{"storage/store/value_get.go",
		"		case pbsubstreams.StoreDelta_DELETE, pbsubstreams.StoreDelta_UPDATE:\n			return true\n		case pbsubstreams.StoreDelta_CREATE:\n			return false", "		case pbsubstreams.StoreDelta_DELETE, pbsubstreams.StoreDelta_UPDATE:\n			return true\n		case pbsubstreams.StoreDelta_CREATE:\n			return true"}}, Why: "has_first answers true for a key created in the block"},
	{Name: "C08/getat-strict", Prop: "C08", Breaks: true, Expect: "C08.R2", Edits: []Edit{{"storage/store/value_get.go", "func (b *baseStore) getAt(ord uint64, key string) (out []byte, found bool) {\n	out, found = b.getLast(key)\n\n	for i := len(b.deltas) - 1; i >= 0; i-- {\n		delta := b.deltas[i]\n		if delta.Ordinal <= ord {",
		"func (b *baseStore) getAt(ord uint64, key string) (out []byte, found bool) {\n	out, found = b.getLast(key)\n\n	for i := len(b.deltas) - 1; i >= 0; i-- {\n		delta := b.deltas[i]\n		if delta.Ordinal < ord {"}}, Why: "operations at the queried ordinal undone"},
	{Name: "C08/unstable-sort", Prop: "C08", Breaks: true, Expect: "C08.R3", Edits: []Edit{{"pb/sf/substreams/intern/v2/deltas.go", "slices.SortStableFunc(", "slices.SortFunc("}}, Why: "equal ordinals reordered"},
	{Name: "C08/no-sort", Prop: "C08", Breaks: true, Expect: "C08.R3", Edits: []Edit{{"storage/store/base_store.go", "	b.kvOps.Sort()\n", ""}}, Why: "operations applied in call order"},
	{Name: "C08/update-marked-create", Prop: "C08", Breaks: true, Expect: "C08.R4", Edits: []Edit{{"storage/store/value_set.go", "			Operation: pbsubstreams.StoreDelta_UPDATE,", "			Operation: pbsubstreams.StoreDelta_CREATE,"}}, Why: "delta kind does not match presence"},
	{Name: "C08/preserve-delegation", Prop: "C08", Breaks: false, Edits: []Edit{{"storage/store/value_get.go",
		"func (b *baseStore) HasLast(key string) bool {\n	for i := len(b.deltas) - 1; i >= 0; i-- {\n		delta := b.deltas[i]\n		if delta.Key != key {\n			continue\n		}\n\n		switch delta.Operation {\n		case pbsubstreams.StoreDelta_DELETE:\n			return false\n		case pbsubstreams.StoreDelta_CREATE, pbsubstreams.StoreDelta_UPDATE:\n			return true\n		default:\n			panic(fmt.Sprintf(\"invalid value %q for pbsubstreams.StoreDelta::Op for key %q\", delta.Operation.String(), delta.Key))\n		}\n	}\n\n	_, found := b.kv[key]\n	return found\n}",
		"func (b *baseStore) HasLast(key string) bool {\n	_, found := b.getLast(key)\n	return found\n}"}}, Why: "has_last delegating to get_last agrees by construction"},

	// ---------------------------------------------------------------- C09
	{Name: "C09/log-read-before-flush", Prop: "C09", Breaks: true, Expect: "C09.R1", Edits: []Edit{{"pipeline/exec/storeexec.go",
		"	if err := e.outputStore.Flush(); err != nil {\n		return nil, nil, nil, err\n	}\n", "	dataForFilesEarly := e.outputStore.ReadOps()\n	_ = dataForFilesEarly\n	if err := e.outputStore.Flush(); err != nil {\n		return nil, nil, nil, err\n	}\n"}}, Why: "log read before it is sorted/applied"},
	{Name: "C09/applyops-no-flush", Prop: "C09", Breaks: true, Expect: "C09.R1", Edits: []Edit{{"storage/store/base_store.go", "	b.kvOps = ops\n	return b.Flush()", "	b.kvOps = ops\n	return nil"}}, Why: "replay does not apply anything"},
	{Name: "C09/deltas-from-log-bytes", Prop: "C09", Breaks: true, Expect: "C09.R4", Edits: []Edit{{"pipeline/exec/storeexec.go", "		deltas := fullkvs.GetDeltas()\n", "		deltas := []*pbsubstreams.StoreDelta{}\n		_ = fullkvs\n"}}, Why: "module output of a replayed block has no deltas"},

	// ---------------------------------------------------------------- C10
	{Name: "C10/printer-args-swapped", Prop: "C10", Breaks: true, Expect: "C10.R1", Edits: []Edit{{"storage/store/filename.go", "	return fmt.Sprintf(\"%010d-%010d.partial\", r.ExclusiveEndBlock, r.StartBlock)", "	return fmt.Sprintf(\"%010d-%010d.partial\", r.StartBlock, r.ExclusiveEndBlock)"}}, Why: "partial files named start-end, parsed end-start"},
	{Name: "C10/parser-groups-swapped", Prop: "C10", Breaks: true, Expect: "C10.R1", Edits: []Edit{{"storage/store/filename.go", "block.NewRange(uint64(mustAtoi(res[0][2])), uint64(mustAtoi(res[0][1])))", "block.NewRange(uint64(mustAtoi(res[0][1])), uint64(mustAtoi(res[0][2])))"}}, Why: "parsed range inverted"},
	{Name: "C10/width-mismatch", Prop: "C10", Breaks: true, Expect: "C10.R1", Edits: []Edit{{"storage/store/filename.go", "	return fmt.Sprintf(\"%010d-%010d.kv\", r.ExclusiveEndBlock, r.StartBlock)", "	return fmt.Sprintf(\"%09d-%010d.kv\", r.ExclusiveEndBlock, r.StartBlock)"}}, Why: "listing order no longer numeric"},
	{Name: "C10/listing-keeps-traceid", Prop: "C10", Breaks: true, Expect: "C10.R3", Edits: []Edit{{"storage/store/config.go", "				return nil\n			}\n\n			if fileInfo.Range.StartBlock >= below {", "			}\n\n			if fileInfo.Range.StartBlock >= below {"}}, Why: "trace-id leftovers listed as snapshots"},
	{Name: "C10/partial-flag-inverted", Prop: "C10", Breaks: true, Expect: "C10.R3", Edits: []Edit{{"storage/store/state/snapshot.go", "		if file.Partial {", "		if !file.Partial {"}}, Why: "full snapshots classified as partials"},

	// ---------------------------------------------------------------- C11
	{Name: "C11/setnewkv-on-existing", Prop: "C11", Breaks: true, Expect: "C11.R3", Edits: []Edit{{"storage/store/merge.go", "				b.setKV(k, []byte(fmt.Sprintf(\"%d\", min(v0, v1))))\n			}\n		case manifest.OutputValueTypeFloat64:", "				b.setNewKV(k, []byte(fmt.Sprintf(\"%d\", min(v0, v1))))\n			}\n		case manifest.OutputValueTypeFloat64:"}}, Why: "the historical defect D4 on another value type"},
	{Name: "C11/setkv-forgets-key", Prop: "C11", Breaks: true, Expect: "C11.R2", Edits: []Edit{{"storage/store/merge.go", "	} else {\n		b.totalSizeBytes += uint64(len(k))\n	}", "	}"}}, Why: "key bytes not counted for new keys"},
	{Name: "C11/limit-not-tested-on-create", Prop: "C11", Breaks: true, Expect: "C11.R5", Edits: []Edit{{"storage/store/delta.go", "		b.totalSizeBytes += newSize\n		b.totalSizeBytes += keySize\n\n", "		b.totalSizeBytes += newSize\n		b.totalSizeBytes += keySize\n		return\n\n"}}, Why: "size limit not enforced for created keys"},
	{Name: "C11/foreign-kv-writer", Prop: "C11", Breaks: true, Expect: "C11.R1", Edits: []Edit{{"storage/store/base_store.go", "	b.kvOps = &pbssinternal.Operations{}\n	b.deltas = nil\n	b.lastOrdinal = 0\n}", "	b.kvOps = &pbssinternal.Operations{}\n	b.deltas = nil\n	b.lastOrdinal = 0\n	delete(b.kv, \"\")\n}"}}, Why: "kv mutated without size update"},
	{Name: "C11/preserve-temp", Prop: "C11", Breaks: false, Edits: []Edit{{"storage/store/merge.go", "	b.totalSizeBytes += uint64(len(v))\n	b.kv[k] = v\n}\n\nfunc (b *baseStore) setNewKV", "	added := uint64(len(v))\n	b.totalSizeBytes += added\n	b.kv[k] = v\n}\n\nfunc (b *baseStore) setNewKV"}}, Why: "temporary variable"},

	// ---------------------------------------------------------------- C12
	{Name: "C12/last-store-wins", Prop: "C12", Breaks: true, Expect: "C12.R1", Edits: []Edit{{"pipeline/resolve.go", "		if store.InitialBlock < startBlock && (lowest == nil || store.InitialBlock < *lowest) {", "		if store.InitialBlock < startBlock {"}}, Why: "the historical defect D5"},
	{Name: "C12/linear-from-start", Prop: "C12", Breaks: true, Expect: "C12.R2", Edits: []Edit{{"orchestrator/plan/requestplan.go", "		plan.LinearPipeline = block.NewRange(linearHandoffBlock, exclusiveEndBlock)", "		plan.LinearPipeline = block.NewRange(resolvedStartBlock, exclusiveEndBlock)"}}, Why: "linear range overlaps the back-filled one"},
	{Name: "C12/read-unclipped", Prop: "C12", Breaks: true, Expect: "C12.R2", Edits: []Edit{{"orchestrator/plan/requestplan.go", "			if exclusiveEndBlock != 0 && exclusiveEndBlock < linearHandoffBlock {\n				readEndBlock = exclusiveEndBlock\n			}\n", ""}}, Why: "cached outputs read beyond the stop block"},
	{Name: "C12/floor-of-other-value", Prop: "C12", Breaks: true, Expect: "C12.R5", Edits: []Edit{{"pipeline/resolve.go", "		libHandoffBoundary := libHandoff - (libHandoff % segmentSize)", "		libHandoffBoundary := libHandoff - (startBlock % segmentSize)"}}, Why: "rounding with another value's remainder"},
	{Name: "C12/start-below-init-accepted", Prop: "C12", Breaks: true, Expect: "C12.R3", Edits: []Edit{{"orchestrator/plan/requestplan.go", "	if resolvedStartBlock < lowestInitialBlock {\n		return nil, fmt.Errorf(\"start block cannot be prior to the lowest init block in the requested module graph (%d)\", lowestInitialBlock)\n	}\n", ""}}, Why: "impossible request planned"},
	{Name: "C12/preserve-nested-ifs", Prop: "C12", Breaks: false, Edits: []Edit{{"pipeline/resolve.go", "		if store.InitialBlock < startBlock && (lowest == nil || store.InitialBlock < *lowest) {\n			lowest = &store.InitialBlock\n		}",
		"		if store.InitialBlock >= startBlock {\n			continue\n		}\n		if lowest == nil || store.InitialBlock < *lowest {\n			lowest = &store.InitialBlock\n		}"}}, Why: "same minimum written with an early continue"},

	// ---------------------------------------------------------------- C13
	{Name: "C13/lastindex-no-minus-one", Prop: "C13", Breaks: true, Expect: "C13.R", Edits: []Edit{{"block/segmenter.go", "	lastSegment := (s.exclusiveEndBlock - 1) / s.interval", "	lastSegment := s.exclusiveEndBlock / s.interval"}}, Why: "an end on a boundary yields an extra segment"},
	{Name: "C13/max-instead-of-min", Prop: "C13", Breaks: true, Expect: "C13.R3", Edits: []Edit{{"block/segmenter.go", "	baseBlock := uint64(idx) * s.interval\n	upperBound := baseBlock + s.interval\n	return NewRange(baseBlock, min(upperBound, s.exclusiveEndBlock))", "	baseBlock := uint64(idx) * s.interval\n	upperBound := baseBlock + s.interval\n	return NewRange(baseBlock, max(upperBound, s.exclusiveEndBlock))"}}, Why: "last segment not clipped"},
	{Name: "C13/floor-plus-remainder", Prop: "C13", Breaks: true, Expect: "C13.R", Edits: []Edit{{"block/segmenter.go", "	floorLowerBound := s.initialBlock - s.initialBlock%s.interval", "	floorLowerBound := s.initialBlock + s.initialBlock%s.interval"}}, Why: "malformed rounding"},
	{Name: "C13/preserve-temp", Prop: "C13", Breaks: false, Edits: []Edit{{"block/segmenter.go", "	initSegment := s.initialBlock / s.interval\n	return int(initSegment)", "	return int(s.initialBlock / s.interval)"}}, Why: "temporary removed"},

	{Name: "C13/preserve-blocknum-guard", Prop: "C13", Breaks: false, Edits: []Edit{{"block/segmenter.go",
		"	if idx > s.LastIndex() {\n		return nil\n	}\n	baseBlock := uint64(idx) * s.interval\n", "	baseBlock := uint64(idx) * s.interval\n	if s.exclusiveEndBlock != 0 && s.exclusiveEndBlock <= baseBlock {\n		return nil\n	}\n"}}, Why: "same guard on block numbers: no segment starts at or after the exclusive end"},
	// ---------------------------------------------------------------- C14
	{Name: "C14/no-filter-dependency", Prop: "C14", Breaks: true, Expect: "C14.R1", Edits: []Edit{{"pipeline/exec/graph.go", "				if !seen[mod.BlockFilter.Module] {\n					continue modLoop\n				}", "				if false {\n					continue modLoop\n				}"}}, Why: "filtered module placed before its index"},
	{Name: "C14/seen-inside-layer", Prop: "C14", Breaks: true, Expect: "C14.R2", Edits: []Edit{{"pipeline/exec/graph.go", "			layer = append(layer, mod)\n", "			layer = append(layer, mod)\n			seen[mod.Name] = true\n"}}, Why: "two modules of one layer may depend on each other"},
	{Name: "C14/no-wait", Prop: "C14", Breaks: true, Expect: "C14.R5", Edits: []Edit{{"pipeline/process_block.go", "			wg.Wait()\n", ""}}, Why: "results applied before the goroutines finished"},
	{Name: "C14/wrong-seen-key", Prop: "C14", Breaks: true, Expect: "C14.R1", Edits: []Edit{{"pipeline/exec/graph.go", "				if !seen[depModName] {", "				if !seen[mod.Name] && false {"}}, Why: "dependencies never awaited"},
	{Name: "C14/preserve-if-else", Prop: "C14", Breaks: false, Edits: []Edit{{"pipeline/exec/graph.go", "				if !seen[depModName] {\n					continue modLoop\n				}", "				if seen[depModName] {\n					continue\n				}\n				continue modLoop"}}, Why: "same guard written positively"},

	// ---------------------------------------------------------------- C15
	{Name: "C15/and-uses-or", Prop: "C15", Breaks: true, Expect: "C15.R1", Edits: []Edit{{"sqe/bitmap.go", "			op = result.And", "			op = result.Or"}}, Why: "AND evaluated as union on bitmaps only"},
	{Name: "C15/no-clone", Prop: "C15", Breaks: true, Expect: "C15.R2", Edits: []Edit{{"sqe/bitmap.go", "		result := q.apply(firstChild).Clone()\n\n		var op", "		result := q.apply(firstChild)\n\n		var op"}}, Why: "shared index bitmap mutated by the first evaluation"},
	{Name: "C15/skip-polarity", Prop: "C15", Breaks: true, Expect: "C15.R4", Edits: []Edit{{"storage/index/index.go", "	return !sqe.KeysApply(bi.expression, sqe.NewFromIndexKeys(keys))", "	return sqe.KeysApply(bi.expression, sqe.NewFromIndexKeys(keys))"}}, Why: "module skipped exactly on matching blocks"},
	{Name: "C15/keys-and-uses-or", Prop: "C15", Breaks: true, Expect: "C15.R1", Edits: []Edit{{"sqe/keys.go", "				result = result && x", "				result = result || x"}}, Why: "AND evaluated as OR on keys only"},
	{Name: "C15/parser-accepts-not", Prop: "C15", Breaks: true, Expect: "C15.R3", Edits: []Edit{{"sqe/parser.go", "		return nil, fmt.Errorf(\"NOT operator (-) is not supported in the block filter\")", "		p.l.mustLexNext()\n		child, err := p.parseUnaryExpression(depth)\n		if err != nil {\n			return nil, err\n		}\n		return notExpr(child), nil"}}, Why: "negation reaches the bitmap evaluator"},

	// ---------------------------------------------------------------- C16
	{Name: "C16/errorf-loses-sentinel", Prop: "C16", Breaks: true, Expect: "C16.R1", Edits: []Edit{{"pipeline/exec/module_executor.go", "		return nil, nil, nil, false, fmt.Errorf(\"execute: %w\", err)", "		return nil, nil, nil, false, fmt.Errorf(\"execute: %s\", err)"}}, Why: "deterministic failure reported as internal error"},
	{Name: "C16/tier2-internal", Prop: "C16", Breaks: true, Expect: "C16.R2", Edits: []Edit{{"service/tier2.go", "	if errors.Is(err, exec.ErrWasmDeterministicExec) {\n		return status.Error(codes.InvalidArgument, err.Error())\n	}", "	if errors.Is(err, exec.ErrWasmDeterministicExec) {\n		return status.Error(codes.Internal, err.Error())\n	}"}}, Why: "tier 1 retries a deterministic failure"},
	{Name: "C16/invalid-argument-retried", Prop: "C16", Breaks: true, Expect: "C16.R2", Edits: []Edit{{"orchestrator/work/worker.go", "				return &Result{Error: err}\n			}\n			return &Result{\n				Error: NewRetryableErr(fmt.Errorf(\"receiving stream resp: %w\", err)),", "				return &Result{Error: NewRetryableErr(err)}\n			}\n			return &Result{\n				Error: NewRetryableErr(fmt.Errorf(\"receiving stream resp: %w\", err)),"}}, Why: "deterministic failure retried 720 times"},
	{Name: "C16/result-error-lost", Prop: "C16", Breaks: true, Expect: "C16.R1", Edits: []Edit{{"pipeline/process_block.go", "		return fmt.Errorf(\"execute module: %w\", runError)", "		return fmt.Errorf(\"execute module: %v\", runError)"}}, Why: "sentinel lost on the data path"},
	{Name: "C16/merge-failure-ignored", Prop: "C16", Breaks: true, Expect: "C16.R3", Edits: []Edit{{"orchestrator/scheduler/scheduler.go", "	case stage.MsgMergeFailed:\n		cmds = append(cmds, loop.Quit(msg.Error))", "	case stage.MsgMergeFailed:\n		s.logger.Warn(\"merge failed\")"}}, Why: "a failed merge does not end the request"},

	// ---------------------------------------------------------------- C17
	{Name: "C17/unchecked-binary-index", Prop: "C17", Breaks: true, Expect: "C17.R1", Edits: []Edit{{"manifest/signature.go", "	if int(module.BinaryIndex) >= len(modules.Binaries) {\n		return nil, fmt.Errorf(\"module %q: binary index %d out of range, %d binaries defined\", module.Name, module.BinaryIndex, len(modules.Binaries))\n	}\n", ""}}, Why: "the historical defect D8 (index)"},
	{Name: "C17/kind-not-validated", Prop: "C17", Breaks: true, Expect: "C17.R1", Edits: []Edit{{"manifest/reader.go", "		if mod.Kind == nil {\n			return fmt.Errorf(\"module %q: missing kind\", mod.Name)\n		}\n", ""}}, Why: "the historical defect D8 (kind)"},
	{Name: "C17/validation-error-swallowed", Prop: "C17", Breaks: true, Expect: "C17.R2", Edits: []Edit{{"service/validate.go", "	if err := manifest.ValidateModules(modules); err != nil {\n		return fmt.Errorf(\"modules validation failed: %w\", err)\n	}\n", "	if err := manifest.ValidateModules(modules); err != nil && len(modules.Modules) > 1000 {\n		return fmt.Errorf(\"modules validation failed: %w\", err)\n	}\n"}}, Why: "invalid modules reach graph construction"},
	{Name: "C17/cycles-accepted", Prop: "C17", Breaks: true, Expect: "C17.R3", Edits: []Edit{{"manifest/graph.go", "	if !graph.Acyclic(g) {\n		return nil, fmt.Errorf(\"modules graph has a cycle\")\n	}\n", ""}}, Why: "staging and hashing may not terminate"},
	{Name: "C17/preserve-self-references-refused-by-validation", Prop: "C17", Breaks: false, Edits: []Edit{
		{"manifest/graph.go", "			if j, found := g.moduleIndex[moduleName]; found {\n				g.AddCost(i, j, 1)\n			}\n", "			if j, found := g.moduleIndex[moduleName]; found && j != i {\n				g.AddCost(i, j, 1)\n			}\n"},
		{"manifest/graph.go", "			if j, found := g.moduleIndex[moduleName]; found {\n				g.AddCost(i, j, 1)\n				g.inputOrderIndex", "			if j, found := g.moduleIndex[moduleName]; found && j != i {\n				g.AddCost(i, j, 1)\n				g.inputOrderIndex"},
		{"manifest/reader.go", "			seekMod := i.Map.ModuleName\n", "			seekMod := i.Map.ModuleName\n			if seekMod == mod.Name {\n				return fmt.Errorf(\"module %q: input %d: a module cannot use its own output as input\", mod.Name, idx)\n			}\n"},
		{"manifest/reader.go", "			seekMod := i.Store.ModuleName\n", "			seekMod := i.Store.ModuleName\n			if seekMod == mod.Name {\n				return fmt.Errorf(\"module %q: input %d: a module cannot use its own output as input\", mod.Name, idx)\n			}\n"},
		{"manifest/reader.go", "		seekModName := blockFilter.GetModule()\n", "		seekModName := blockFilter.GetModule()\n		if seekModName == mod.Name {\n			return fmt.Errorf(\"block filter module %q cannot be the module itself\", seekModName)\n		}\n"},
	}, Why: "another sound design: self references are refused by validation for every reference kind, so the graph may leave self loops out"},
	{Name: "C17/new-panic", Prop: "C17", Breaks: true, Expect: "C17.R1", Edits: []Edit{{"pipeline/exec/graph.go", "	g.outputModule = computeOutputModule(g.usedModules, outputModuleName)", "	g.outputModule = computeOutputModule(g.usedModules, outputModuleName)\n	if g.outputModule.Output == nil {\n		panic(\"no output\")\n	}"}}, Why: "request-reachable panic"},

	// ---------------------------------------------------------------- C18
	{Name: "C18/wrong-case-number", Prop: "C18", Breaks: true, Expect: "C18.R1", Edits: []Edit{{"storage/execout/pb/noalloc_version.go", "		case 3:\n			if wireType != 2 {", "		case 6:\n			if wireType != 2 {"}}, Why: "payload decoded from the wrong field number"},
	{Name: "C18/wrong-tag-constant", Prop: "C18", Breaks: true, Expect: "C18.R2", Edits: []Edit{{"storage/store/marshaller/protoing_fast.go", "const DeletePrefixEntryProtoTag = 0x12", "const DeletePrefixEntryProtoTag = 0x1a"}}, Why: "delete prefixes written as field 3"},
	{Name: "C18/no-recount", Prop: "C18", Breaks: true, Expect: "C18.R3", Edits: []Edit{{"storage/store/marshaller/vtproto.go", "			dataSize += uint64(len(mapkey) + len(mapvalue))\n", ""}}, Why: "loaded stores report size 0"},
	{Name: "C18/keyed-by-cursor", Prop: "C18", Breaks: true, Expect: "C18.R4", Edits: []Edit{{"storage/execout/pb/noalloc_version.go", "		m.Kv[item.BlockId] = item", "		m.Kv[item.Cursor] = item"}}, Why: "cached outputs looked up by block id are not found"},
	{Name: "C18/size-misses-tag", Prop: "C18", Breaks: true, Expect: "C18.R2", Edits: []Edit{{"storage/store/marshaller/protoing_fast.go", "		size += 1                                // List element proto tag 0x12 (field number 2 [the DeletePrefix field], type LEN [string])\n", ""}}, Why: "buffer one byte short per deleted prefix"},
}
