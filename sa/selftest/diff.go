package selftest

import (
	"fmt"
	"strings"
)

type hunk struct {
	oldLines []string // context + removed
	newLines []string // context + added
	oldStart int
}

type filePatch struct {
	File  string
	Hunks []hunk
	New   bool // the diff creates the file
}

// parseUnifiedDiff reads a `git diff` output.
func parseUnifiedDiff(s string) ([]filePatch, error) {
	var out []filePatch
	var cur *filePatch
	var h *hunk
	flush := func() {
		if h != nil && cur != nil {
			cur.Hunks = append(cur.Hunks, *h)
			h = nil
		}
	}
	for _, line := range strings.Split(s, "\n") {
		switch {
		case strings.HasPrefix(line, "diff --git "):
			flush()
			if cur != nil {
				out = append(out, *cur)
			}
			cur = &filePatch{}
		case strings.HasPrefix(line, "+++ "):
			if cur == nil {
				return nil, fmt.Errorf("+++ outside a file section")
			}
			f := strings.TrimPrefix(line, "+++ ")
			f = strings.TrimPrefix(f, "b/")
			cur.File = f
		case strings.HasPrefix(line, "new file"):
			if cur != nil {
				cur.New = true
			}
		case strings.HasPrefix(line, "--- "), strings.HasPrefix(line, "index "), strings.HasPrefix(line, "deleted file"), strings.HasPrefix(line, "similarity"), strings.HasPrefix(line, "rename "):
		case strings.HasPrefix(line, "@@"):
			flush()
			h = &hunk{}
			fmt.Sscanf(line, "@@ -%d", &h.oldStart)
		case h != nil && strings.HasPrefix(line, "+"):
			h.newLines = append(h.newLines, line[1:])
		case h != nil && strings.HasPrefix(line, "-"):
			h.oldLines = append(h.oldLines, line[1:])
		case h != nil && strings.HasPrefix(line, " "):
			h.oldLines = append(h.oldLines, line[1:])
			h.newLines = append(h.newLines, line[1:])
		case h != nil && line == "\\ No newline at end of file":
		case h != nil && line == "":
			// blank context line whose leading space was trimmed, or end of diff
			h.oldLines = append(h.oldLines, "")
			h.newLines = append(h.newLines, "")
		}
	}
	flush()
	if cur != nil {
		out = append(out, *cur)
	}
	// drop trailing empty pseudo-context lines introduced by the final newline
	for i := range out {
		for j := range out[i].Hunks {
			hk := &out[i].Hunks[j]
			for len(hk.oldLines) > 0 && len(hk.newLines) > 0 && hk.oldLines[len(hk.oldLines)-1] == "" && hk.newLines[len(hk.newLines)-1] == "" {
				hk.oldLines = hk.oldLines[:len(hk.oldLines)-1]
				hk.newLines = hk.newLines[:len(hk.newLines)-1]
			}
		}
	}
	return out, nil
}

// applyHunks replaces, for each hunk, the block of old lines (searched nearest
// to the recorded position, so unrelated line shifts do not matter) by the new lines.
func applyHunks(content string, hunks []hunk) (string, bool) {
	lines := strings.Split(content, "\n")
	for _, h := range hunks {
		if len(h.oldLines) == 0 {
			return "", false
		}
		best := -1
		for i := 0; i+len(h.oldLines) <= len(lines); i++ {
			match := true
			for j, ol := range h.oldLines {
				if lines[i+j] != ol {
					match = false
					break
				}
			}
			if match {
				if best == -1 || abs(i-(h.oldStart-1)) < abs(best-(h.oldStart-1)) {
					best = i
				}
			}
		}
		if best == -1 {
			return "", false
		}
		nl := append([]string{}, lines[:best]...)
		nl = append(nl, h.newLines...)
		nl = append(nl, lines[best+len(h.oldLines):]...)
		lines = nl
	}
	return strings.Join(lines, "\n"), true
}

func abs(x int) int {
	if x < 0 {
		return -x
	}
	return x
}
