package main

import (
	"fmt"
	"go/types"
	"strings"

	"verif/sa/core"
)

func dumpGate(p *core.Prog) {
	fn := p.Func("pipeline", "BuildRequestDetails")
	rd := p.Named("reqctx", "RequestDetails")
	gate, hand, start := core.FieldOf(rd, "LinearGateBlockNum"), core.FieldOf(rd, "LinearHandoffBlockNum"), core.FieldOf(rd, "ResolvedStartBlockNum")
	paths := core.Summarize(&core.SymConfig{Fn: fn, PlainFields: map[*types.Var]string{gate: "gate", hand: "hand", start: "start"}})
	for _, ps := range paths {
		var cs []string
		for _, c := range ps.Conds {
			cs = append(cs, c.String())
		}
		fmt.Println(ps.End, ps.Assigns, strings.Join(cs, " && "))
	}
}
