// ssdebug: development aid — dump loops and path summaries of a function.
package main

import (
	"fmt"
	"os"
	"strings"

	"golang.org/x/tools/go/ssa"

	"verif/sa/core"
)

func main() {
	p, err := core.Load(core.LoadOptions{Dir: "/repo"})
	if err != nil {
		panic(err)
	}
	if len(os.Args) > 1 && os.Args[1] == "gate" {
		dumpGate(p)
		return
	}
	for _, a := range os.Args[1:] {
		parts := strings.SplitN(a, ":", 2)
		fn := p.Func(parts[0], parts[1])
		fmt.Println("==", fn)
		fn.WriteTo(os.Stdout)
		loops := core.Loops(fn)
		for _, l := range loops {
			d, _ := l.InductionDir()
			fmt.Printf("loop header=%d dir=%d body=%d early=%d bound=%d\n", l.Header.Index, d, len(l.Body), len(l.EarlyExits), len(l.BoundExits))
			cfg := &core.SymConfig{Fn: fn, Start: l.Header, StopAt: l.Header, Root: func(v ssa.Value) (string, bool) {
				if strings.HasSuffix(v.Type().String(), "v1.StoreDelta") {
					return "δ", true
				}
				return "", false
			}}
			for _, ps := range core.Summarize(cfg) {
				var cs []string
				for _, c := range ps.Conds {
					cs = append(cs, c.String())
				}
				fmt.Printf("  path end=%s conds=[%s] results=%v back=%v calls=%d\n", ps.End, strings.Join(cs, " && "), ps.Results, ps.BackPhi, len(ps.Calls))
			}
		}
	}
}
