// sscheck: static checker deciding structural clauses of the substreams
// properties C01..C18 from /repo's current source (never runs repository code).
//
//	sscheck [-repo /repo] [-verif /verif] <Cxx> quick|thorough
//	sscheck -replay <violation.json>
//	sscheck -list
package main

import (
	"encoding/json"
	"flag"
	"fmt"
	"os"
	"path/filepath"
	"runtime"
	"runtime/debug"
	"sort"
	"strconv"
	"strings"
	"time"

	"verif/sa/core"
	"verif/sa/props"
	"verif/sa/selftest"
)

func main() {
	repo := flag.String("repo", "/repo", "repository working tree")
	verif := flag.String("verif", "/verif", "verif directory")
	replay := flag.String("replay", "", "re-evaluate the obligation recorded in a violation file")
	list := flag.Bool("list", false, "list properties and rules")
	manifest := flag.Bool("manifest", false, "write MANIFEST.json from the registry")
	variant := flag.String("variant", "", "internal: run the property on one seeded in-memory variant and print obligation statuses as JSON")
	describe := flag.Bool("describe", false, "run every rule set on the repository and print the rule inventory (Markdown) used as DESIGN.md appendix D")
	noEvidence := flag.Bool("no-evidence", false, "do not write the evidence file")
	flag.Parse()
	if v := os.Getenv("SSCHECK_INTER"); v != "" { // development aid: default call-following depth of path queries
		fmt.Sscanf(v, "%d", &core.DefaultInter)
	}
	if os.Getenv("SSCHECK_INSTRSDEEP") != "" {
		core.InstrsAlwaysDeep = true
	}
	if os.Getenv("SSCHECK_DEEPALWAYS") != "" {
		core.DeepAlways = true
	}
	if v := os.Getenv("SSCHECK_DEEP"); v != "" {
		fmt.Sscanf(v, "%d", &core.DeepFind)
	}
	// Many GC/worker threads faulting pages concurrently is pathologically slow on this
	// kind of VM (minutes of system time); 8 threads and a moderately lazy GC are the sweet spot.
	if runtime.GOMAXPROCS(0) > 8 {
		runtime.GOMAXPROCS(8)
	}
	debug.SetGCPercent(200)

	if *manifest {
		writeManifest(*verif)
		return
	}
	if *describe {
		describeAll(*repo)
		return
	}
	if *list {
		ids := props.IDs()
		for _, id := range ids {
			fmt.Println(id, "-", props.Registry[id].Title)
		}
		return
	}

	var prop, tier string
	var only *core.Obligation
	if *replay != "" {
		b, err := os.ReadFile(*replay)
		if err != nil {
			fmt.Fprintln(os.Stderr, "cannot read replay file:", err)
			os.Exit(2)
		}
		var v struct{ Property, Rule, Construct string }
		if err := json.Unmarshal(b, &v); err != nil {
			fmt.Fprintln(os.Stderr, "bad replay file:", err)
			os.Exit(2)
		}
		prop, tier = v.Property, "quick"
		only = &core.Obligation{Rule: v.Rule, Construct: v.Construct}
	} else {
		if flag.NArg() < 1 {
			fmt.Fprintln(os.Stderr, "usage: sscheck <Cxx> quick|thorough")
			os.Exit(2)
		}
		prop = flag.Arg(0)
		tier = "quick"
		if flag.NArg() > 1 {
			tier = flag.Arg(1)
		}
		if t := os.Getenv("VERIF_TIER"); t != "" && flag.NArg() < 2 {
			tier = t
		}
	}
	def, ok := props.Registry[prop]
	if !ok {
		fmt.Fprintf(os.Stderr, "unknown property %q\n", prop)
		os.Exit(2)
	}
	if tier != "quick" && tier != "thorough" {
		fmt.Fprintf(os.Stderr, "unknown tier %q\n", tier)
		os.Exit(2)
	}
	seed := 0
	if s := os.Getenv("VERIF_SEED"); s != "" {
		seed, _ = strconv.Atoi(s)
	}

	if *variant != "" {
		os.Exit(selftest.RunVariantChild(*repo, prop, *variant))
	}

	t0 := time.Now()
	evPath := filepath.Join(*verif, "evidence", prop+".json")
	if only == nil && !*noEvidence {
		_ = os.Remove(evPath)
	}
	p, err := core.Load(core.LoadOptions{Dir: *repo})
	if err != nil {
		fmt.Printf("UNDECIDED load — %v\n", err)
		os.Exit(2)
	}
	fmt.Printf("# %s %s: loaded %d repository packages in %.1fs, SSA %.1fs\n", prop, tier, len(p.Roots), p.LoadSecs, p.SSASecs)
	if tier == "thorough" && only == nil {
		p.Thorough = true
	}
	r := core.NewReport(prop)
	props.RunFull(prop, p, r)

	if only != nil {
		found := false
		for _, o := range r.Obligations {
			if o.Rule == only.Rule && o.Construct == only.Construct {
				found = true
				fmt.Printf("%s %s %s — %s: %s %v\n", o.Status, o.Rule, o.Construct, o.Desc, o.Detail, o.Sites)
				if o.Status == core.Violated {
					os.Exit(1)
				}
			}
		}
		if !found {
			fmt.Println("obligation no longer produced by the rule set")
			os.Exit(2)
		}
		return
	}

	known, err := core.LoadKnown(filepath.Join(*verif, "known_findings.json"))
	if err != nil {
		fmt.Printf("UNDECIDED known_findings.json — %v\n", err)
		os.Exit(2)
	}
	viol, undec := r.Finish(known, filepath.Join(*verif, "out", "violations"))

	extra := map[string]interface{}{}
	stFail := 0
	if tier == "thorough" {
		res := selftest.Run(*repo, prop, seed)
		extra["variants_fired"] = res.Fired
		extra["variants_silent"] = res.Silent
		extra["variants_skipped"] = res.Skipped
		extra["variants_failed"] = res.Failed
		extra["variants"] = res.Lines
		sort.Strings(res.Lines)
		for _, l := range res.Lines {
			fmt.Println("selftest", l)
		}
		stFail = len(res.Failed)
	}

	wall := time.Since(t0).Seconds()
	if !*noEvidence {
		if err := r.WriteEvidence(evPath, tier, seed, wall, p, def.Explanation+includesNote(prop), def.NotCovered, def.Assumptions, extra); err != nil {
			fmt.Printf("UNDECIDED evidence — %v\n", err)
			os.Exit(2)
		}
	}
	fmt.Printf("# %s %s: %d obligations, %d violated, %d undecided, %.1fs\n", prop, tier, len(r.Obligations), viol, undec, wall)
	switch {
	case viol > 0:
		os.Exit(1)
	case undec > 0 || stFail > 0:
		os.Exit(2)
	}
}

func writeManifest(verif string) {
	type check struct {
		PropertyID   string                 `json:"property_id"`
		QuickCmd     string                 `json:"quick_cmd"`
		ThoroughCmd  string                 `json:"thorough_cmd"`
		EvidenceFile string                 `json:"evidence_file"`
		ReplayCmd    string                 `json:"replay_cmd_template"`
		Engine       string                 `json:"engine"`
		Level        map[string]interface{} `json:"level_claimed"`
		LevelNote    string                 `json:"level_note"`
		Technique    string                 `json:"technique"`
	}
	var checks []check
	var served []string
	for _, id := range props.IDs() {
		d := props.Registry[id]
		served = append(served, id)
		ref := d.DesignRef
		if ref == "" {
			ref = "DESIGN.md §3 " + id
		}
		checks = append(checks, check{
			PropertyID: id, QuickCmd: "bin/check " + id + " quick", ThoroughCmd: "bin/check " + id + " thorough",
			EvidenceFile: "/verif/evidence/" + id + ".json", ReplayCmd: "bin/sscheck -replay {path}", Engine: "sscheck",
			Level: map[string]interface{}{"category": "other", "design_ref": ref,
				"text": "Static analysis of /repo's current source (no execution): decides structural clauses that are necessary conditions of the property, on every path / for every input of the functions inspected. " + d.Explanation + includesNote(id) + " NOT decided: " + d.NotCovered},
			LevelNote: "Trusted: go/types, go/ssa, VTA call graph (x/tools v0.29.0), generated protobuf code, external packages. " + strings.Join(d.Assumptions, "; "),
			Technique: d.Technique,
		})
	}
	type na struct {
		PropertyID string `json:"property_id"`
		Reason     string `json:"reason"`
	}
	nas := []na{}
	var naIDs []string
	for id := range props.NotApplicable {
		naIDs = append(naIDs, id)
	}
	sort.Strings(naIDs)
	for _, id := range naIDs {
		if _, claimed := props.Registry[id]; claimed {
			continue
		}
		nas = append(nas, na{id, props.NotApplicable[id]})
	}
	m := map[string]interface{}{
		"version":   1,
		"setup_cmd": "cd /verif/sa && GOFLAGS=-mod=mod GOPROXY=off GOSUMDB=off GOTOOLCHAIN=local GOWORK=off go build -o /verif/bin/sscheck ./cmd/sscheck",
		"hooks": map[string]interface{}{
			"guard":            "verif",
			"enable":           "none needed: the checks are static and read /repo's working tree; no hook exists in /repo",
			"baseline_off_cmd": "cd /repo && GOFLAGS=-mod=mod go test -vet=off -count=1 -timeout 25m ./...",
			"source_commits":   []string{},
			"add_only":         true,
		},
		"engines": []map[string]interface{}{{"name": "sscheck", "path": "/verif/sa", "serves_properties": served,
			"kind_free_text": "custom Go static analyzer (go/packages + go/ssa + VTA call graph + AST tables): path rules, writer ownership, effect summaries, provenance slices, codec/format tables"}},
		"checks":         checks,
		"not_applicable": nas,
		"notes":          "All checks are static analysis (family: static analysis). Exit 0 = all obligations discharged, 1 = VIOLATION, 2 = undecided (anchor lost / shape not classifiable) — never silent. known_findings.json lists genuine defects (fixed: entries suppress nothing).",
	}
	b, _ := json.MarshalIndent(m, "", " ")
	if err := os.WriteFile(filepath.Join(verif, "MANIFEST.json"), append(b, '\n'), 0o644); err != nil {
		fmt.Fprintln(os.Stderr, err)
		os.Exit(2)
	}
}

// describeAll prints, per property, the rules as they are discharged on the current tree.
func describeAll(repo string) {
	p, err := core.Load(core.LoadOptions{Dir: repo})
	if err != nil {
		fmt.Fprintln(os.Stderr, "load:", err)
		os.Exit(2)
	}
	for _, id := range props.IDs() {
		d := props.Registry[id]
		r := core.NewReport(id)
		d.Run(p, r)
		fmt.Printf("### %s — %s\n\n", id, d.Title)
		fmt.Printf("*Technique*: %s\n\n*Decides*: %s%s\n\n*Does not decide*: %s\n\n", d.Technique, d.Explanation, includesNote(id), d.NotCovered)
		type agg struct {
			n     int
			descs []string
			ex    []string
		}
		rules := map[string]*agg{}
		var order []string
		for _, o := range r.Obligations {
			a := rules[o.Rule]
			if a == nil {
				a = &agg{}
				rules[o.Rule] = a
				order = append(order, o.Rule)
			}
			a.n++
			seen := false
			for _, x := range a.descs {
				if x == o.Desc {
					seen = true
				}
			}
			if !seen && len(a.descs) < 40 {
				a.descs = append(a.descs, o.Desc)
				a.ex = append(a.ex, o.Construct)
			}
		}
		sort.Strings(order)
		fmt.Printf("| rule | obligations on this tree | what each obligation requires (first construct it is discharged on) |\n|---|---|---|\n")
		for _, k := range order {
			a := rules[k]
			var parts []string
			for i, dsc := range a.descs {
				parts = append(parts, fmt.Sprintf("%s (`%s`)", strings.ReplaceAll(dsc, "|", "\\|"), strings.ReplaceAll(a.ex[i], "|", "\\|")))
			}
			fmt.Printf("| %s | %d | %s |\n", k, a.n, strings.Join(parts, "; "))
		}
		fmt.Println()
	}
}

// includesNote: sentence appended to a property's explanation when it also evaluates other properties' rule sets.
func includesNote(id string) string {
	inc := props.IncludedClosure(id)
	if len(inc) == 0 {
		return ""
	}
	return " The check also evaluates, as rule " + id + ".I, the rule sets of the mechanisms this property rests on: " + strings.Join(inc, ", ") + " (a change that breaks one of them breaks this property too)."
}
