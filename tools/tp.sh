#!/bin/bash
# tools/tp.sh <binary> <round-dir/Cxx/pN> <prop>... — evaluate one preserving patch under the given properties, with details
BIN=$1; P=$2; shift 2
for prop in "$@"; do
  SSCHECK_DEBUG=1 $BIN -variant patch:/verif/tools/$P.diff $prop 2>&1 | grep '^violated\|"applied"' | cut -c1-500
done
