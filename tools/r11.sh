#!/bin/bash
# tools/r7.sh <binary> Cxx... — evaluate the round-7 seeded change of each property (in its scratch worktree) under its own check
BIN=$1; shift
for P in "$@"; do
  f=/tmp/w11-$P/patch.diff
  [ -s $f ] || { echo "$P: no patch yet"; continue; }
  echo "$P: $($BIN -variant patch:$f $P 2>&1 | tail -1 | cut -c1-260)"
done
