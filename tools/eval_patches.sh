#!/bin/bash
# tools/eval_patches.sh <binary> <patch>... — evaluate behaviour-preserving patches (in memory, /repo untouched) against
# ALL 18 checks, 5 runs in flight; prints one ALARM line per (patch, property) that raises an alarm.
BIN=$1; shift
run() { pf=$1; i=$2; out=$($BIN -variant patch:$pf C$i 2>&1 | tail -1); if echo "$out" | grep -q '"violated":\[\|"undecided":\[\|"error"\|"applied":false'; then echo "ALARM $(basename $(dirname $pf))/$(basename $pf) C$i: $(echo $out | cut -c1-420)"; fi; }
for pf in "$@"; do
  [ -s "$pf" ] || continue
  for i in 01 02 03 04 05 06 07 08 09 10 11 12 13 14 15 16 17 18; do
    run $pf $i &
    while [ $(jobs -r | wc -l) -ge 5 ]; do sleep 0.5; done
  done
done
wait
echo "done"
