#!/usr/bin/env python3
"""tools/mutcheck.py <prop> <file-relative-to-repo> <old> <new> — apply a one-off textual mutation to /repo, run the quick check, revert.
Development aid only (never used by registered checks)."""
import subprocess, sys
prop, rel, old, new = sys.argv[1:5]
path = '/repo/' + rel
s = open(path).read()
assert s.count(old) >= 1, 'pattern not found'
open(path, 'w').write(s.replace(old, new, 1))
try:
    b = subprocess.run(['go', 'build', './...'], cwd='/repo', capture_output=True, text=True,
                       env={**__import__('os').environ, 'GOFLAGS': '-mod=mod', 'GOPROXY': 'off', 'GOSUMDB': 'off', 'GOTOOLCHAIN': 'local'})
    if b.returncode != 0:
        print('MUTANT DOES NOT COMPILE\n', b.stderr[:600])
    else:
        out = subprocess.run(['/verif/bin/sscheck', '-no-evidence', prop, 'quick'], capture_output=True, text=True)
        lines = [l for l in out.stdout.splitlines() if l.startswith(('violated', 'UNDECIDED', 'VIOLATION'))]
        print('exit', out.returncode)
        print('\n'.join(l[:400] for l in lines))
finally:
    subprocess.run(['git', '-C', '/repo', 'checkout', '--', rel])
