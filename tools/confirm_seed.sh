#!/bin/bash
# tools/confirm_seed.sh <property-id> <worktree> [name] — independently confirm a seeded change produced by a sub-agent:
#   demo fails with the change, passes without it, the project builds and the existing suite passes with it.
# On success the change is stored under /verif/seeded/<name>/ (patch.diff, demo, meta.json).
set -u
ID=$1; WT=$2; NAME=${3:-$ID}
export GOFLAGS=-mod=mod GOPROXY=off GOSUMDB=off GOTOOLCHAIN=local
unset GOWORK
cd "$WT" || exit 2
DEMO=$(git status --short | awk '/zz_demo_/ {print $2}' | head -1)
[ -n "$DEMO" ] || { echo "no demo file found"; exit 2; }
PKG=./$(dirname "$DEMO")/
RUN=$(grep -o 'func Test[A-Za-z0-9_]*' "$DEMO" | sed 's/func //' | paste -sd'|')
[ -n "$RUN" ] || { echo "no test function in demo"; exit 2; }
LOG=/tmp/confirm-$NAME.log; : > $LOG
echo "== build with change" | tee -a $LOG
go build ./... >>$LOG 2>&1 || { echo "BUILD FAILS"; exit 1; }
echo "== demo with change (must fail)" | tee -a $LOG
if go test -vet=off -count=1 -run "$RUN" $PKG >>$LOG 2>&1; then echo "DEMO DOES NOT FAIL WITH CHANGE"; exit 1; fi
echo "== existing suite with change (must pass; ./info needs network and is excluded)" | tee -a $LOG
PKGS=$(go list ./... | grep -v '/info$')
if ! go test -vet=off -count=1 -skip "$RUN" $PKGS >>$LOG 2>&1; then echo "SUITE FAILS WITH CHANGE"; grep -E "^(FAIL|---)" $LOG | head; exit 1; fi
echo "== demo without change (must pass)" | tee -a $LOG
git diff -- . ':(exclude)*_test.go' ':(exclude)patch.diff' ':(exclude)meta.json' > /tmp/confirm-$NAME.patch
git apply -R /tmp/confirm-$NAME.patch || { echo "cannot revert"; exit 2; }
if ! go test -vet=off -count=1 -run "$RUN" $PKG >>$LOG 2>&1; then echo "DEMO FAILS WITHOUT CHANGE"; git apply /tmp/confirm-$NAME.patch; exit 1; fi
git apply /tmp/confirm-$NAME.patch
mkdir -p /verif/seeded/$NAME
cp /tmp/confirm-$NAME.patch /verif/seeded/$NAME/patch.diff
cp "$DEMO" /verif/seeded/$NAME/
python3 - "$ID" "$WT" "$NAME" "$DEMO" "$RUN" <<'PY'
import json,sys
pid,wt,name,demo,run=sys.argv[1:6]
m=json.load(open(wt+'/meta.json')) if __import__('os').path.exists(wt+'/meta.json') else {}
out={"property":pid,"summary":m.get("summary",""),"needs":m.get("needs",""),
 "demo":{"file":demo,"run":"copy the file to <repo>/%s and run: go test -vet=off -count=1 -run '%s' ./%s/"%(demo,run,demo.rsplit('/',1)[0])},
 "confirmed_by_me":["go build ./... with the change: ok","demo with the change: FAIL (as required)","go test -vet=off -count=1 -skip TestDemo <all packages but ./info> with the change: ok","demo without the change: ok"],
 "agent_ran":m.get("ran",[])}
json.dump(out,open('/verif/seeded/%s/meta.json'%name,'w'),indent=1)
PY
echo "CONFIRMED $NAME"
