#!/usr/bin/env python3
"""mkvariant.py <base.diff|-> <repo-relative file> <old> <new> [<old> <new> ...]  → writes /tmp/mkv/<n>.diff
Applies base.diff (if any) to a scratch copy of the file, then the textual replacements, and prints the
path of a diff against /repo that `sscheck -variant patch:<path>` can evaluate (development aid)."""
import os, subprocess, sys, tempfile, shutil
base, rel, reps = sys.argv[1], sys.argv[2], sys.argv[3:]
d = tempfile.mkdtemp(prefix="mkv")
os.makedirs(os.path.join(d, "a", os.path.dirname(rel)))
os.makedirs(os.path.join(d, "b", os.path.dirname(rel)))
shutil.copy(os.path.join("/repo", rel), os.path.join(d, "a", rel))
shutil.copy(os.path.join("/repo", rel), os.path.join(d, "b", rel))
if base != "-":
    subprocess.check_call(["patch", "-p1", "-s", "-i", os.path.abspath(base)], cwd=os.path.join(d, "b"))
s = open(os.path.join(d, "b", rel)).read()
for i in range(0, len(reps), 2):
    assert s.count(reps[i]) >= 1, "not found: " + reps[i]
    s = s.replace(reps[i], reps[i + 1], 1)
open(os.path.join(d, "b", rel), "w").write(s)
out = subprocess.run(["diff", "-u", "a/" + rel, "b/" + rel], cwd=d, capture_output=True, text=True).stdout.split("\n")
out[0], out[1] = "--- a/" + rel, "+++ b/" + rel
os.makedirs("/tmp/mkv", exist_ok=True)
n = len(os.listdir("/tmp/mkv"))
path = "/tmp/mkv/%d.diff" % n
open(path, "w").write("diff --git a/%s b/%s\n" % (rel, rel) + "\n".join(out))
shutil.rmtree(d)
print(path)
