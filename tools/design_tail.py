#!/usr/bin/env python3
"""Regenerates the generated parts of DESIGN.md (seeded-change table of §8 and the variant table of
Appendix A) from /verif/seeded/*/meta.json and sa/selftest/table.go.  The prose lives in
tools/design_tail.md; everything before '## 4.' in DESIGN.md is left untouched."""
import re, json, glob, os, sys

root = os.path.dirname(os.path.dirname(os.path.abspath(__file__)))
os.chdir(root)
s = open('DESIGN.md').read()
a = s.index('## 4. Properties not applicable as a whole')
head = s[:a]

t = open('sa/selftest/table.go').read()
rows = []
for m in re.finditer(r'\{Name: "([^"]+)", Prop: "(C\d+)", Breaks: (true|false)(?:, Expect: "([^"]*)")?.*?Why: "((?:[^"\\]|\\.)*)"\}', t, re.S):
    rows.append(m.groups())
vt = '| variant | kind | rule expected | what the edit does |\n|---|---|---|---|\n'
for n, p, b, e, w in rows:
    vt += '| %s | %s | %s | %s |\n' % (n, 'breaking' if b == 'true' else 'preserving', e or ('any' if b == 'true' else '—'), w.replace('|', '\\|'))

catch = json.load(open('tools/seed_catch.json'))
st = '| seeded change | what it does / what it needs to manifest | reported by | history |\n|---|---|---|---|\n'
nseeds = 0
for d in sorted(glob.glob('seeded/*')):
    if not os.path.exists(d + '/meta.json'):
        continue
    m = json.load(open(d + '/meta.json'))
    n = os.path.basename(d)
    c = catch.get(n, ['?', '?'])
    summ = m['summary'].split('. ')[0][:330].replace('|', '\\|').replace('\n', ' ')
    needs = m['needs'].split('. ')[0][:260].replace('|', '\\|').replace('\n', ' ')
    st += '| `%s` | %s. *Needs*: %s | %s | %s |\n' % (n, summ, needs, c[0], c[1])
    nseeds += 1

# behaviour-preserving refactor rounds: patches that raised an alarm when first evaluated
pt = '| patch | refactoring | rules that alarmed when first evaluated |\n|---|---|---|\n'
npres = 0
for rnd, dirn, alarms in (('1', 'tools/preserving', 'tools/preserving/round1_alarms.json'), ('2', 'tools/preserving2', 'tools/preserving2/round2_alarms.json'), ('3', 'tools/preserving3', 'tools/preserving3/round3_alarms.json')):
    if not os.path.exists(alarms):
        continue
    al = json.load(open(alarms))
    npres += len(glob.glob(dirn + '/C*/p*.diff'))
    for k in sorted(al):
        pid, pn = k.split('/')
        desc = ''
        rd = '%s/%s/README.txt' % (dirn, pid)
        if os.path.exists(rd):
            for line in open(rd):
                if line.startswith(pn + '.diff') or line.startswith(pn + ':') or line.startswith(pn + ' '):
                    desc = re.split(r'\.? Tests?:', line.strip())[0]
                    desc = re.sub(r'^p\d+(\.diff)?[: ]\s*', '', desc)[:260]
        pt += '| r%s %s | %s | %s |\n' % (rnd, k, desc.replace('|', '\\|'), ', '.join('`%s`' % x.replace('|', '\\|') for x in al[k][:4]) + (' …' if len(al[k]) > 4 else ''))

tail = open('tools/design_tail.md').read()
tail = tail.replace('@@PRESERVING@@', pt).replace('@@NPRESERVING@@', str(npres))
tail = tail.replace('@@SEEDS@@', st).replace('@@VARIANTS@@', vt).replace('@@NVARIANTS@@', str(len(rows))).replace('@@NSEEDS@@', str(nseeds))
open('DESIGN.md', 'w').write(head + tail)
print(len(rows), 'variants,', nseeds, 'seeded changes')
