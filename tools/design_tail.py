#!/usr/bin/env python3
"""Regenerates the generated parts of DESIGN.md (seeded-change table of §8 and the variant table of
Appendix A) from /verif/seeded/*/meta.json and sa/selftest/table.go.  The prose lives in
tools/design_tail.md; everything before '## 4.' in DESIGN.md is left untouched."""
import re, json, glob, os, sys

root = os.path.dirname(os.path.dirname(os.path.abspath(__file__)))
os.chdir(root)
s = open('DESIGN.md').read()
a = s.index('## 4. Properties not applicable as a whole')
head = s[:a]

t = open('sa/selftest/table.go').read()
rows = []
for m in re.finditer(r'\{Name: "([^"]+)", Prop: "(C\d+)", Breaks: (true|false)(?:, Expect: "([^"]*)")?.*?Why: "((?:[^"\\]|\\.)*)"\}', t, re.S):
    rows.append(m.groups())
vt = '| variant | kind | rule expected | what the edit does |\n|---|---|---|---|\n'
for n, p, b, e, w in rows:
    vt += '| %s | %s | %s | %s |\n' % (n, 'breaking' if b == 'true' else 'preserving', e or ('any' if b == 'true' else '—'), w.replace('|', '\\|'))

catch = json.load(open('tools/seed_catch.json'))
st = '| seeded change | what it does / what it needs to manifest | reported by | history |\n|---|---|---|---|\n'
nseeds = 0
for d in sorted(glob.glob('seeded/*')):
    if not os.path.exists(d + '/meta.json'):
        continue
    m = json.load(open(d + '/meta.json'))
    n = os.path.basename(d)
    c = catch.get(n, ['?', '?'])
    summ = m['summary'].split('. ')[0][:330].replace('|', '\\|').replace('\n', ' ')
    needs = m['needs'].split('. ')[0][:260].replace('|', '\\|').replace('\n', ' ')
    st += '| `%s` | %s. *Needs*: %s | %s | %s |\n' % (n, summ, needs, c[0], c[1])
    nseeds += 1

tail = open('tools/design_tail.md').read()
tail = tail.replace('@@SEEDS@@', st).replace('@@VARIANTS@@', vt).replace('@@NVARIANTS@@', str(len(rows))).replace('@@NSEEDS@@', str(nseeds))
open('DESIGN.md', 'w').write(head + tail)
print(len(rows), 'variants,', nseeds, 'seeded changes')
