#!/bin/bash
# tools/eval_cover.sh <binary> <patch>... — like eval_patches.sh but evaluates only the root checks of the inclusion
# table (C01 C03 C04 C06 C14 C16 C17), which between them run every rule of all 18 sets (included sets appear as <id>.I).
BIN=$1; shift
run() { pf=$1; i=$2; out=$($BIN -variant patch:$pf C$i 2>&1 | tail -1); if echo "$out" | grep -q '"violated":\[\|"undecided":\[\|"error"\|"applied":false' || ! echo "$out" | grep -q '"applied":true'; then echo "ALARM $(basename $(dirname $pf))/$(basename $pf) C$i: $(echo $out | cut -c1-600)"; fi; }
for pf in "$@"; do
  [ -s "$pf" ] || continue
  for i in 01 03 04 06 14 16 17; do
    run $pf $i &
    while [ $(jobs -r | wc -l) -ge 6 ]; do sleep 0.5; done
  done
done
wait
echo "done"
